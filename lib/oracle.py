#!/usr/bin/env python3
"""Exact-rational oracle for number text (stdlib only). Line protocol on stdin/stdout:

  D20 <bits-hex> <text...>         displayed numeral: well-formed and accurate to 15 significant digits
  LIT <bits-hex|ERR> <literal>     literal of the documented grammar: value correctly rounded to nearest
  JSONEQ <json1> \\t <json2>        JSON value equality, numbers compared as doubles (bitwise)

Answers: "ok" or "bad <reason>" (one line per request).
"""
import json, re, struct, sys
from fractions import Fraction

STD = re.compile(r'^-?\d{1,3}(,\d{3})*(\.\d+)?$')
SCI = re.compile(r'^-?\d+(\.\d+)?e[+-]?\d+$')


def bits_to_float(h):
    return struct.unpack('>d', bytes.fromhex(h))[0]


def float_bits(x):
    return struct.pack('>d', x).hex()


def exact(x):
    return Fraction(x)  # exact value of a finite double


def numeral_value(t):
    """Exact value of a displayed numeral."""
    t = t.replace(',', '')
    if 'e' in t:
        m, e = t.split('e')
        return Fraction(m) * Fraction(10) ** int(e)
    return Fraction(t)


def floor_log10(q):
    """e with 10^e <= q < 10^(e+1), q > 0 exact."""
    e = len(str(q.numerator)) - len(str(q.denominator))
    while Fraction(10) ** e > q:
        e -= 1
    while Fraction(10) ** (e + 1) <= q:
        e += 1
    return e


def d20(bits, text):
    x = bits_to_float(bits)
    if x != x:
        return 'ok' if text == 'NaN' else 'bad NaN shown as %r' % text
    if x in (float('inf'), float('-inf')):
        want = 'Infinity' if x > 0 else '-Infinity'
        return 'ok' if text == want else 'bad infinity shown as %r' % text
    if not (STD.match(text) or SCI.match(text)):
        return 'bad not a well-formed numeral'
    neg = text.startswith('-')
    if x == 0:
        if numeral_value(text) != 0:
            return 'bad zero shown as nonzero'
        return 'ok'
    if neg != (x < 0):
        return 'bad sign'
    v = numeral_value(text)
    q = exact(x)
    e = floor_log10(abs(q))
    unit = Fraction(10) ** (e - 14)
    if not abs(v - q) < unit:
        return 'bad off by %.3g units in the 15th significant digit' % float(abs(v - q) / unit)
    if q.denominator == 1 and abs(q) < 2 ** 53 and 'e' not in text and v != q:
        return 'bad integer below 2^53 not shown exactly'
    return 'ok'


DEC = re.compile(r'^([+-]?)(\d+(?:_+\d+)*)(?:\.(\d+))?(?:[eE]([+-]?\d+))?$')
DOT = re.compile(r'^(-?)\.(\d+)(?:[eE]([+-]?\d+))?$')
RADIX = re.compile(r'^([+-]?)0([xb])([0-9a-fA-F]+(?:_+[0-9a-fA-F]+)*)$')


def literal_value(lit):
    """Exact rational value of a literal of the documented grammar, or None if not a literal."""
    m = RADIX.match(lit)
    if m:
        sign, kind, digits = m.groups()
        digits = digits.replace('_', '')
        base = 16 if kind == 'x' else 2
        if base == 2 and not set(digits) <= {'0', '1'}:
            return None
        v = Fraction(int(digits, base))
        return -v if sign == '-' else v
    m = DEC.match(lit)
    if m:
        sign, ip, fp, ex = m.groups()
        s = ip.replace('_', '') + ('.' + fp if fp else '')
        v = Fraction(s) * Fraction(10) ** int(ex or 0)
        return -v if sign == '-' else v
    m = DOT.match(lit)
    if m:
        sign, fp, ex = m.groups()
        v = Fraction('0.' + fp) * Fraction(10) ** int(ex or 0)
        return -v if sign == '-' else v
    return None


def nearest_double(q):
    try:
        return float(q)  # int / int true division: correctly rounded
    except OverflowError:
        return float('inf') if q > 0 else float('-inf')


def lit(bits, literal):
    q = literal_value(literal)
    if q is None:
        return 'bad oracle does not recognise the literal'
    want = nearest_double(q)
    if bits == 'ERR':
        # an error is acceptable only for radix literals that do not fit the implementation's integer
        if RADIX.match(literal) and abs(q) >= 2 ** 63:
            return 'ok'
        return 'bad literal rejected, expected %r' % want
    got = bits_to_float(bits)
    if float_bits(got) == float_bits(want) or (got == 0 and want == 0 and q == 0):
        return 'ok'
    if got == want and got == 0:
        return 'ok'
    return 'bad got %r (%s), nearest double is %r (%s)' % (got, bits, want, float_bits(want))


def canon_json(v):
    if isinstance(v, bool) or v is None or isinstance(v, str):
        return v
    if isinstance(v, (int, float)):
        try:
            f = float(v)
        except OverflowError:
            f = float('inf') if v > 0 else float('-inf')
        return ('num', float_bits(f) if f != 0 else float_bits(0.0))
    if isinstance(v, list):
        return [canon_json(x) for x in v]
    if isinstance(v, dict):
        return ('obj', sorted((k, canon_json(x)) for k, x in v.items()))
    return v


def jsoneq(a, b):
    try:
        ja, jb = json.loads(a), json.loads(b)
    except Exception as e:  # noqa
        return 'bad unparsable json: %s' % e
    return 'ok' if canon_json(ja) == canon_json(jb) else 'bad values differ'


def main():
    out = sys.stdout
    for line in sys.stdin:
        line = line.rstrip('\n')
        try:
            if line.startswith('D20 '):
                _, bits, text = line.split(' ', 2)
                r = d20(bits, text)
            elif line.startswith('LIT '):
                _, bits, literal = line.split(' ', 2)
                r = lit(bits, literal)
            elif line.startswith('JSONEQ '):
                a, b = line[7:].split('\t', 1)
                r = jsoneq(a, b)
            else:
                r = 'bad unknown request'
        except Exception as e:  # noqa
            r = 'bad oracle exception %r' % (e,)
        out.write(r + '\n')
    out.flush()


if __name__ == '__main__':
    main()
