#!/bin/bash
# Regression for the checks themselves: every seeded change must be reported by the checks named in its meta.json.
# usage: tools/seedall.sh [name-filter]   (restores /repo after each patch; run ./check all afterwards to refresh evidence)
cd /verif
ok=0; bad=0
for d in seeded/*/; do
  n=$(basename $d)
  [[ -n "${1:-}" && "$n" != *"$1"* ]] && continue
  # FAST=1: one check per seed (the first listed, but not C01 / C05 when another one is listed too)
  if [ -n "${FAST:-}" ]; then
    ids=$(python3 -c "import json;k=list(json.load(open('$d/meta.json'))['detected_by'].keys());q=[x for x in k if x not in ('C01','C05')];print((q or k)[0])")
  else
    ids=$(python3 -c "import json;print(' '.join(json.load(open('$d/meta.json'))['detected_by'].keys()))")
  fi
  # ONLY="C04 C13": skip seeds whose selected checks are all outside that list (partial regression after a module changed)
  if [ -n "${ONLY:-}" ]; then keep=""; for i in $ids; do [[ " $ONLY " == *" $i "* ]] && keep=1; done; [ -z "$keep" ] && continue; fi
  res=$(tools/seedcheck.sh /verif/${d}patch.diff $ids 2>&1 | grep "^==" | awk '{print $2"="$3}' | tr '\n' ' ')
  if [ -z "$res" ]; then echo "ERROR   $n :: seedcheck produced no result (patch does not apply?)"; bad=$((bad+1)); continue; fi
  if echo "$res" | grep -q "exit=0\|exit=2" ; then echo "MISSED  $n :: $res"; bad=$((bad+1)); else echo "caught  $n :: $res"; ok=$((ok+1)); fi
done
echo "caught=$ok missed=$bad"
