#!/bin/bash
# usage: tools/seedcheck.sh <patch.diff> <ID> [<ID> ...]   [TIER=quick|thorough]
# Applies a seeded change to /repo, runs the given checks, and always restores /repo.
set -u
patch="$(realpath "$1")"; shift
tier="${TIER:-quick}"
cd /repo || exit 2
if ! git diff --quiet; then echo "refusing: /repo has uncommitted changes"; exit 2; fi
if ! git apply --check "$patch" 2>/dev/null; then echo "patch does not apply to /repo HEAD"; exit 2; fi
git apply "$patch"
trap 'git -C /repo checkout -- . ; git -C /repo clean -fdq -- blots-core/src blots/src blots-wasm/src 2>/dev/null' EXIT
cd /verif
for id in "$@"; do
  out=$(./check "$id" --tier "$tier" 2>&1)
  rc=$?
  nviol=$(echo "$out" | grep -c '^VIOLATION')
  echo "== $id exit=$rc violations_printed=$nviol :: $(echo "$out" | grep -m1 -A3 '^VIOLATION' | tr '\n' ' ' | cut -c1-400)"
  echo "$out" | tail -1 | cut -c1-200
done
rm -rf /verif/replays
