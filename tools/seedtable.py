#!/usr/bin/env python3
"""Regenerate /verif/seeded/README.md and the table in DESIGN.md §8 from seeded/*/meta.json."""
import json, os, glob, re
V = os.path.dirname(os.path.dirname(os.path.abspath(__file__)))
rows = []
for m in sorted(glob.glob(os.path.join(V, 'seeded', '*', 'meta.json'))):
    j = json.load(open(m))
    name = os.path.basename(os.path.dirname(m))
    det = '; '.join('**%s**: %s' % (k, v) for k, v in j['detected_by'].items()) or '—'
    missed = 'yes → ' + j['strengthened'] if j.get('initially_missed') else 'no'
    author = 'sub-agent' if 'sub-agent' in j.get('author', '') else 'self'
    rows.append((name, j['property'], author, j['needs_to_manifest'], det, missed))
lines = ['| seeded change | property | author | needs, in order to manifest | reported by | initially missed? (what was strengthened) |', '|---|---|---|---|---|---|']
for r in rows:
    lines.append('| `%s` | %s | %s | %s | %s | %s |' % tuple(x.replace('|', '\\|').replace('\n', ' ') for x in r))
table = '\n'.join(lines)
n_total = len(rows); n_missed = sum(1 for r in rows if r[5].startswith('yes'))
summary = '%d seeded changes (%d by fresh sub-agents, %d self-authored); %d were missed by the checks as they stood when the change arrived, and every one of those is reported after the strengthening noted in the last column; all %d are reported by the committed checks.' % (
    n_total, sum(1 for r in rows if r[2] == 'sub-agent'), sum(1 for r in rows if r[2] == 'self'), n_missed, n_total)
open(os.path.join(V, 'seeded', 'README.md'), 'w').write('# Seeded property-breaking changes\n\nEach directory holds `patch.diff` (apply with `git -C /repo apply`), the author\'s demonstration and notes, and `meta.json` (what it needs, what was run, which checks report it). Run one with `tools/seedcheck.sh seeded/<name>/patch.diff <ID>…` (restores /repo afterwards).\n\n' + summary + '\n\n' + table + '\n')
d = open(os.path.join(V, 'DESIGN.md')).read()
start = d.index('<!-- SEEDTABLE:BEGIN -->') if '<!-- SEEDTABLE:BEGIN -->' in d else None
block = '<!-- SEEDTABLE:BEGIN -->\n' + summary + '\n\n' + table + '\n<!-- SEEDTABLE:END -->'
if start is None:
    d = re.sub(r'\| seeded change \| breaks \| needs \| reported by \|\n\|---\|---\|---\|---\|\n\|[^\n]*\n', block + '\n', d)
else:
    end = d.index('<!-- SEEDTABLE:END -->') + len('<!-- SEEDTABLE:END -->')
    d = d[:start] + block + d[end:]
open(os.path.join(V, 'DESIGN.md'), 'w').write(d)
print(summary)
