#!/usr/bin/env python3
"""Write the prompt for a fresh sub-agent that is to produce a property-breaking change.
usage: tools/seedprompt.py <ID> <tag> [round]   -> /tmp/seed/prompt-<tag>.txt
The agent gets only the property text and its own scratch worktree /tmp/seed/wt-<tag> (nothing from /verif)."""
import json, sys

pid, tag = sys.argv[1], sys.argv[2]
rnd = int(sys.argv[3]) if len(sys.argv) > 3 else 1
focus = sys.argv[4] if len(sys.argv) > 4 else ''

prop = None
for l in open('/verif/properties.jsonl'):
    d = json.loads(l)
    if d['id'] == pid:
        prop = d
wt, out = f'/tmp/seed/wt-{tag}', f'/tmp/seed/out-{tag}'
notes = {
    1: '',
    2: """
SECOND ROUND NOTE: a first, fairly direct attempt at this has already been made by someone else. Come up with a DIFFERENT and SUBTLER idea. Good directions: behaviour that flips only beyond a length / width / depth / count threshold; an interaction of two features that each work alone; non-ASCII text, special numbers (NaN, -0, infinities, subnormals, > 2^53) or empty / singleton collections; dependence on what happened earlier in the same session or process; a rarely used code path (for example the CLI flags, the --format path, or the WASM bindings source in blots-wasm/src/lib.rs, which is in scope even though it is only compiled for wasm32); an optimisation (caching, early exit, fast path) that is almost always valid. Avoid the most obvious one-line operator / constant flips.
""",
    3: """
THIRD ROUND NOTE: two attempts have already been made by other people - one direct, one built on a threshold / non-ASCII / caching idea in the most obvious function for this property. Find a THIRD mechanism. Before you choose, read the code the property is anchored in and list (in notes.md) at least four distinct places where the property could be broken; then pick the one that is LEAST likely to have been chosen already: a helper that the obvious function relies on, a second code path that must agree with the first (library vs CLI vs WASM bindings in blots-wasm/src/lib.rs; the parser's grammar in blots-core/src/grammar.pest; the value / heap / environment layer), a clause of the statement other than its headline, or a combination of two language features. The breakage should need a specific, describable input shape to show (say exactly which), and everything else should keep working. Avoid one-line operator / constant flips and avoid anything an everyday program would expose at once.
""",
    4: """
FOURTH ROUND NOTE: three attempts have already been made by other people, mostly in the most obvious function for this property. This time the place is fixed for you - FOCUS: """ + focus + """. Read that code closely, list (in notes.md) at least four distinct ways in which a change THERE could break the property, and pick the one that needs the most specific input to show and is the least likely to be noticed in review. The breakage should need a specific, describable input shape (say exactly which), and everything else should keep working. Avoid one-line operator / constant flips and anything an everyday program would expose at once. If, after reading, you are convinced that no change in the focus area can break this property while the 435 tests still pass, say so in notes.md and choose the nearest place where one can.
""",
    6: """
SIXTH ROUND NOTE: several attempts have been made already, and all the obvious mechanisms are taken. Assume the verification suite under evaluation explores SMALL inputs exhaustively (short lists and strings, shallow nesting, a handful of statements, the usual special numbers) and only sparsely samples larger sizes. Make a change whose breakage shows ONLY on inputs such exploration is unlikely to contain, for example: a size / length / depth / count threshold that is not a round number (more than 37 elements, strings longer than 300 characters, nesting deeper than 6, more than 12 statements or 9 arguments, a record with more than 20 keys); a particular combination of three language features; a particular non-special number (more than 17 significant digits, a value between 2^31 and 2^32, a specific decimal exponent); or a specific Unicode class (combining marks, right-to-left text, astral planes, characters whose upper/lower case has a different length). Such a threshold must look natural in the code (a buffer size, a fast path for small inputs, a chunked loop, a cache with a capacity). State the trigger exactly in notes.md. Read the code the property is anchored in first and list at least four candidate places in notes.md before choosing.
""",
    7: """
SEVENTH ROUND NOTE: many attempts have been made already (direct ones, caches, thresholds on sizes and depths, Unicode classes, read-buffer boundaries). Assume the verification suite explores small inputs exhaustively, a ladder of larger sizes, every nesting depth up to a few dozen, and short sequences of statements. Find something it can still miss. Directions that are still open: a breakage that needs a SEQUENCE of at least four dependent steps (statements, calls or evaluations) before it shows; a breakage that depends on HOW a value was created rather than on the value (computed vs written as a literal, read from inputs vs built in the program, captured vs passed, spread vs indexed); an interaction between TWO entry points or modes (library vs CLI vs the WASM bindings source, file vs inline vs -e, --format then evaluate); a counter, index or accumulator that wraps or saturates; state that survives a FAILED operation; a fast path chosen by an arithmetic coincidence (length divisible by a stride, a value equal to its own rounding, two keys with equal hash-relevant prefixes). The change must still look like something a maintainer would commit. State the trigger exactly in notes.md. Read the code the property is anchored in first and list at least four candidate places in notes.md before choosing.
""",
    8: """
EIGHTH ROUND NOTE: a great many attempts have been made already. Assume a thorough suite: exhaustive small inputs; ladders of sizes, nesting depths and call depths; aliased and shared heap objects; values produced in different ways; sessions that continue after errors and failed calls; heaps pre-loaded with tens of thousands of values; padded sources, CRLF line endings, invisible characters; stdin delivered in chunks; output files that already exist. Find what is STILL open. Suggestions: break a SECONDARY clause of the statement rather than its headline; break the property only on a path that is rarely driven - the code of the WASM bindings themselves in blots-wasm/src/lib.rs (evaluate / format_blots / tokenize / evaluate_inline_expressions: input conversion, output collection, position mapping), the `#name` input-reference syntax, `constants`, record spread and shorthand, optional parameters that receive an explicit null, operators applied to function values, string * list mixtures, the `print` / `time_now` built-ins, output declarations of names bound earlier; or make two features interfere that have no reason to meet. Keep it realistic and small; state the exact trigger in notes.md; read the code first and list at least four candidate places before choosing.
""",
    9: """
NINTH ROUND NOTE: a great many attempts have been made already (direct slips, caches, thresholds, Unicode classes, read-buffer boundaries, sequences, provenance of values, secondary clauses, rarely driven entry points incl. the WASM bindings source and the interactive mode on a terminal). Assume a very thorough suite. What is still most likely open is the class of REFACTORINGS THAT LOOK LIKE NO-OPS: replacing a piece of code by a library call or idiom that is equivalent except at an edge. Examples of the kind (do not feel bound to them): `%` vs `rem_euclid`; `sort_by` vs `sort_unstable_by` (stability); `partial_cmp().unwrap_or(Equal)` vs `total_cmp`; `f64::max/min` (NaN-ignoring) vs a comparison chain; `a * b + c` vs `mul_add`; `powi` vs `powf`; `round` vs `round_ties_even`; `as i64` / `as usize` / `as u32` conversions that saturate or truncate; `trim` vs `trim_matches(' ')`; `to_lowercase` vs `to_ascii_lowercase`; `chars().count()` vs `len()`; `split_whitespace` vs `split(' ')`; `lines()` vs `split('\\n')`; `==` on f64 vs on bits; `IndexMap::remove` (swap_remove) vs `shift_remove`; `extend` vs `insert` precedence for duplicate keys; `Rc::ptr_eq` shortcuts before a structural comparison; `iter().rev()` on chars vs on bytes; `HashMap` vs `IndexMap` iteration order; collecting into a `BTreeMap` (sorted) where insertion order mattered; `clone()` of an `Rc` vs of the value behind it; short-circuit `&&`/`||` that skips a needed side effect or error; hoisting a check out of a loop so that it no longer runs for an empty collection; merging two match arms that differ only for one variant. Read the anchored code, list in notes.md at least five such candidate rewrites with the exact edge at which each differs, and pick the one whose edge is the hardest to hit by systematic exploration of small and medium inputs but still within the quantified space of the property. The diff must read like a clean-up.
""",
    10: """
TENTH ROUND NOTE: a great many attempts have been made already (direct slips, caches, thresholds, Unicode classes, sequences, provenance of values, secondary clauses, rarely driven entry points, refactorings that look like no-ops). Assume a very thorough suite. This round asks for a change made of TWO COOPERATING SITES, each of which looks fine (and IS harmless) on its own: for example, a helper gains a parameter / a slightly different contract and one of its several callers is not updated the right way; a normalisation or check is moved from a producer to its consumers and one consumer is missed; a value is now cached / interned / shared in one place and mutated or compared by identity in another; one site starts to produce a representation (an empty collection, a -0, a NaN, a borrowed vs owned string, a pre-sorted list, an absent vs null field) that a second, distant site handles differently from the old one; an error is now constructed early at one site and swallowed or re-labelled at another. The property must hold with either half applied alone and break only with both, and the breakage must need a specific input shape that involves BOTH sites (say exactly which). Read the anchored code, list in notes.md at least four candidate pairs of sites, and pick the pair whose joint trigger is hardest to hit by systematic exploration but still within the quantified space of the property. The diff must read like a reasonable refactoring.
""",
}
text = f"""You are helping to evaluate how well a verification suite detects regressions in the open-source project paul-russo/blots-lang (Blots: a small expression-oriented language written in Rust: pest grammar, tree-walking evaluator, formatter, CLI, WASM bindings).

You have your own scratch git worktree of the repository at {wt} (a detached checkout; work ONLY there; do not touch /repo, and do not read anything under /verif - your result must be independent of it). Write your deliverables to {out}/.

The property under study ({pid}: {prop['title']}):

STATEMENT: {prop['statement']}

QUANTIFIED OVER: {prop['quantifier']['text']}

WHY THE EXISTING TESTS CANNOT SETTLE IT: {prop['why_tests_cant']}

CODE THE PROPERTY IS ANCHORED IN: {', '.join(prop['anchors']['files'])}

YOUR TASK: make ONE realistic change to the source code in {wt} (the kind of slip or well-meant refactoring/optimisation a maintainer could plausibly commit) that BREAKS this property, while
  (a) the workspace still compiles, and
  (b) the repository's existing test suite still passes completely: run `cd {wt} && CARGO_TARGET_DIR={wt}/target cargo test --workspace --no-fail-fast --offline </dev/null` (435 tests; ALWAYS redirect stdin from /dev/null, the CLI tests hang otherwise; there is no network, use --offline).
Prefer a change that needs something SPECIFIC to manifest - a particular multi-step sequence of statements, an unusual input (special number, non-ASCII text, empty/long collection, a particular nesting or operator combination), a particular width or layout, or two cooperating sites that each look fine alone - NOT one that ordinary use would expose at once, and not a change to test files, build scripts or documentation. Do not simply delete a feature or make everything fail; the change should look innocent in review. Keep it small (a few lines up to ~30).
{notes[rnd]}
DELIVERABLES in {out}/:
  1. patch.diff  - `git -C {wt} diff` of your change (source files only; do not commit).
  2. demo.sh - a shell script that builds the CLI in the worktree (`cd {wt} && CARGO_TARGET_DIR={wt}/target cargo build --release --offline -p blots </dev/null`) and runs `{wt}/target/release/blots ...` (with `</dev/null` or piped input), or, if the CLI cannot reach the behaviour, copies a Rust integration test next to it into the worktree, runs it with cargo test and removes it again. It must exit non-zero with your change applied and exit 0 on the unchanged code - verify both ways yourself (use `git diff > {out}/p.diff; git checkout -- .; ...; git apply {out}/p.diff`; do NOT use `git stash`: the stash is shared between all worktrees of this repository and other people are working in sibling worktrees).
  3. notes.md - which clause of the property breaks, the exact input/sequence/configuration needed for the breakage to show, and the output of the test-suite run (the summary lines) with the change applied.
Leave the worktree with your change applied (uncommitted) when you finish. Your final answer should be a short summary of the change, what is needed to trigger it, and confirmation that the 435 existing tests pass with it.
"""
open(f'/tmp/seed/prompt-{tag}.txt', 'w').write(text)
print(f'/tmp/seed/prompt-{tag}.txt')
