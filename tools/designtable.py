#!/usr/bin/env python3
"""Regenerate the per-property table in DESIGN.md (between <!-- PROPTABLE:BEGIN --> and <!-- PROPTABLE:END -->)
from the evidence files: evidence/<ID>.json (last quick run) and evidence-thorough/<ID>.json (last thorough run)."""
import json, os, re
V = '/verif'
SHAPE = {'C01': 'G+D+E', 'C02': 'S+E+G', 'C03': 'S', 'C04': 'S+G', 'C05': 'G×D', 'C06': 'D+E', 'C07': 'G×W', 'C08': 'G×W', 'C09': 'D×W', 'C10': 'D+G',
         'C11': 'D', 'C12': 'D', 'C13': 'D', 'C14': 'D', 'C15': 'D', 'C16': 'D', 'C17': 'D (whole table)', 'C18': 'G+E', 'C19': 'S+E', 'C20': 'D'}
def load(p):
    try:
        return json.load(open(p))
    except Exception:
        return None
def fmt(n):
    if n is None: return '—'
    if n >= 10_000_000: return f'{n/1e6:.0f} M'
    if n >= 1_000_000: return f'{n/1e6:.1f} M'
    if n >= 10_000: return f'{n/1e3:.0f} k'
    if n >= 1_000: return f'{n/1e3:.1f} k'
    return str(n)
def wall(e):
    if e is None: return '—'
    w = e['wall_s']
    return '<1 s' if w < 1 else (f'{w:.0f} s' if w < 120 else f'{w/60:.1f} min')
rows = ['| id | shape | level | wall quick / thorough | evaluations quick / thorough | distinct non-trivial quick / thorough |', '|---|---|---|---|---|---|']
for i in range(1, 21):
    pid = f'C{i:02d}'
    q, t = load(f'{V}/evidence/{pid}.json'), load(f'{V}/evidence-thorough/{pid}.json')
    if q and q.get('tier') != 'quick': q = None
    lvl = (q or t or {}).get('level', '?')
    ev = lambda e: fmt(e['coverage'].get('evaluations')) if e else '—'
    dn = lambda e: fmt(e['coverage'].get('distinct_nontrivial')) if e else '—'
    extra = ''
    if pid == 'C03' and (q or t):
        c = (q or t)['coverage']
        extra = f" ({c.get('states')} states, {c.get('transitions')} transitions, fixpoint)"
    rows.append(f"| {pid} | {SHAPE[pid]} | {lvl} | {wall(q)} / {wall(t)} | {ev(q)} / {ev(t)}{extra} | {dn(q)} / {dn(t)} |")
block = '<!-- PROPTABLE:BEGIN -->\n' + '\n'.join(rows) + '\n<!-- PROPTABLE:END -->'
p = f'{V}/DESIGN.md'
s = open(p).read()
if '<!-- PROPTABLE:BEGIN -->' in s:
    s = re.sub(r'<!-- PROPTABLE:BEGIN -->.*?<!-- PROPTABLE:END -->', lambda m: block, s, flags=re.S)
else:
    # first use: replace the hand-written table under "## 4. The properties"
    a = s.index('| id | shape | level |')
    b = s.index('\n\n', a)
    s = s[:a] + block + s[b:]
open(p, 'w').write(s)
print('table rows:', len(rows) - 2)
