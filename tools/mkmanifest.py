#!/usr/bin/env python3
"""Regenerate /verif/MANIFEST.json from the table below (single source of truth for what is claimed)."""
import json, os, subprocess

VERIF = os.path.dirname(os.path.dirname(os.path.abspath(__file__)))

# id -> (level category, technique, level text, level note, design ref)
CLAIMED = {
 "C01": ("exploration",
         "bounded-exhaustive enumeration of built-in argument tuples, source texts, token strings, syntax trees, corpus deviations, nesting depths and JSON inputs; every case executed in a crash-isolated worker and through the real CLI",
         "Every built-in x every argument tuple of a boundary value pool at every accepted arity; every string of length <= 3/4 over a 48-character alphabet; every token string of length <= 3/4 over a 44-token alphabet (spaced and joined); every parent x child / depth-3 tree; the corpus with every single-token deletion, replacement and insertion; 23 nesting constructs at depth 1..64; input-sized loops; JSON documents incl. function objects with valid / truncated / non-lambda sources; serde-form wasm inputs. Each case runs parse, AST conversion, evaluation, value rendering / validation / JSON round trip, formatting and the four wasm entry points inside a worker process with a 10 s cap (panic caught, abort / stack overflow / hang attributed to the case); nesting family, JSON documents and crashers also through the real `blots` binary. Oracle: a result or a reported error, never a panic / abort / hang; error spans inside the text they carry.",
         "Library stages run on a 1 GiB stack in the worker (as the CLI's interpreter thread does); benchmark programs that legitimately run for seconds get no deviations; inputs outside the alphabets and bounds are not explored.",
         "DESIGN.md §4 C01"),
 "C02": ("model_checking",
         "explicit enumeration of evaluation histories and of environment answers (HashMap iteration orders through the H1 seam, deviation-bounded); differential evaluation for double evaluation and let-abstraction",
         "States are histories of <= 2 earlier programs (45-program alphabet) and iteration-order answer scripts with <= 2 deviations at every choice point a program reaches; each transition is a whole-program evaluation in a fresh session whose status, outputs JSON and bindings must equal the empty-history / default-order run. Every generated expression over shared list / record / string / function / number values is evaluated twice (equal results, all earlier bindings unchanged) and every assignment-free sub-expression is let-abstracted. The real binary is repeated in fresh processes (labelled repetition).",
         "For scopes with more than 4 names only n+1 of the n! orders are offered by the seam; time_now and print are excluded as the statement says.",
         "DESIGN.md §4 C02"),
 "C03": ("model_checking",
         "explicit-state BFS to fixpoint over statement histories of the real evaluator + reference model + stateright cross-check",
         "Every reachable session state over a 56-statement alphabet (bind, rebind, shadow, nested assignment, output, calls, failing and reserved-name statements) is enumerated to the BFS fixpoint; every transition runs one statement through get_pairs/evaluate_pairs and is checked against the immutability/scoping invariants and a reference model of the alphabet. Right level because the property is an invariant over all statement histories.",
         "Trusts the harness's canonical state key (sorted bindings + outputs) and the reference model of the statement alphabet; names/values outside the alphabet are not explored.",
         "DESIGN.md §4 C03"),
 "C04": ("model_checking",
         "explicit enumeration of sessions (definition-time values x closure definitions) and of calling contexts as transitions of the real evaluator; reference model for arity",
         "Every closure of a hand-written set (~37 definitions) plus every generated body (every node kind, every parent x child kind in every slot, over parameter / captured / literal leaves) is defined in a session under each definition-time value pair; the same call is then evaluated at top level and in 21 calling contexts (shadowing parameters of every kind, do-locals, nested blocks, callbacks of via/map/into/reduce/where, the function itself as callback, a closure created under another binding, container and conditional positions), with refused redefinitions in between: every context must give the top-level value, and for 21 closures the top-level value must equal an expression over a, b and the argument written out by the harness. All 24 documented parameter-list shapes x argument counts 0..n+3 x plain/spread/mixed/into passing are compared with a 10-line reference model of positional binding.",
         "Closures are closed by construction (all free names bound at definition); bodies deeper than parent x child and contexts outside the 21-entry grammar are not explored.",
         "DESIGN.md §4 C04"),
 "C05": ("exploration",
         "generator-automaton enumeration of function bodies x capture configurations x argument tuples; differential execution of original vs reloaded vs re-emitted function",
         "Function bodies = every node kind alone, every parent x child kind in every slot, depth-3 spines, plus binder-collision kinds (inner parameter / do-local / shorthand named like a captured name, postfix on captured values) and do-blocks with an expression statement after another statement, over typed leaves; each under 16 capture configurations (negative, NaN, infinities, -0, strings with both quote kinds / backslash / newline, nested data, records with quoted keys, closures with their own captures, built-ins) and every argument pair of a 6/11-value pool: the original closure, its from_json(to_json(.)) reload in a fresh heap and the re-emitted reload must agree (equal value or both fail); the emitted text must itself be a lambda; a spread of functions also through the real `blots p1 | blots p2` pipeline.",
         "Function-valued results are compared by signature only (their behaviour is compared when they are called); self-recursive and late-bound functions are outside the statement; one recorded known finding (emitted text of root-pipe bodies is not itself a lambda, pinned by existing tests).",
         "DESIGN.md §4 C05"),
 "C06": ("exploration",
         "bounded-exhaustive enumeration of JSON-representable values and documents; round trip in process and through two real processes; independent JSON oracle",
         "Every leaf of the value alphabets (grid spread of finite doubles, every string of length <= 2/3 over a 24-code-point alphabet, special strings), each leaf in a list and under every key of a 39-key pool, every ordered key pair, leaf pairs, depth-3/4 nestings and depth-6 spines is pushed through from_value -> to_json -> text -> from_json -> to_value and compared by .== and structurally (bits, code points); 405/3100 documents (number spellings, escapes, nesting, duplicate keys) go through the real CLI with -i and through a second process reading the first one's stdout.",
         "Python's json/float is the reference for JSON number values; objects with the reserved key and numbers beyond the double range are excluded as stated.",
         "DESIGN.md §4 C06"),
 "C07": ("exploration",
         "generator-automaton enumeration of syntax trees x every maximum width up to each program's saturation bound; re-parse and AST comparison",
         "Reference renderings of every tree of the generator families (every node kind; parent x child kind in every slot; thorough: full slot products, all depth-3 spines, depth-4 spines over class representatives - 3.1 M programs), literal families, the corpus and comment/blank-line/leading-minus statement sequences are formatted at every width from 1 to the per-program saturation bound (re-checked) plus the default; every distinct output is re-parsed and compared statement by statement with the input's AST. Paths: real format_blots (wasm source, native shim) and the real `blots --format` binary.",
         "The wasm driver runs natively against stand-in wasm-bindgen crates; trees deeper than the families and programs outside them are not explored; width saturation argument is re-checked per program at B, B+1 and 10^6.",
         "DESIGN.md §4 C07"),
 "C08": ("exploration",
         "same enumeration as C07; fixed-point check of the formatter on every distinct layout",
         "For every (program, width) of the C07 space plus statement sequences with comments and 0..5 blank lines, every distinct formatter output is formatted again at the widths that produced it and must come back byte-identical; through format_blots (native shim) and `blots --format`.",
         "Second pass is run at the first and last width of each group of widths that share an output; same bounds as C07.",
         "DESIGN.md §4 C08"),
 "C09": ("exploration",
         "exhaustive enumeration of comment placements (single, pairs, triples, all) over line templates x widths; independent lexer-level comment scan",
         "18 line templates covering every position the grammar admits a comment in (before/between/after statements, end of statement line, after list items / record entries on the same line, own line inside lists/records incl. before the closing bracket, inside do-blocks, before return, nested containers) plus the silent-NEWLINE and empty-container positions; the empty set, every single slot (also doubled), every pair (thorough: every triple) and all slots at once x every width 1..45/70 + default through format_blots (native shim) and through `blots --format`; the comment sequence of the output must equal the input's.",
         "Two recorded known-finding classes (comments in silent NEWLINE positions, comments in empty containers) are matched by the harness's own placement kind and the exact observation 'only those comments are missing'; positions outside the templates are not explored.",
         "DESIGN.md §4 C09"),
 "C10": ("exploration",
         "exhaustive enumeration of operator sequences, prefix/postfix combinations, layout-site choices and identifier shapes against a reference precedence-climbing parser",
         "All 676 operator pairs, 17576 triples, 6561 quadruples over level representatives and every prefix x postfix x operator combination are parsed in minimal and fully parenthesised form and compared with a precedence-climbing reference built from the property's table; every layout option at every grammar layout site (singly, pairwise, all at once) over every node kind / parent-child spine must leave the AST unchanged; every reserved word x every one-character prefix/suffix (plus compounds) is bound and referenced in 34 expression contexts.",
         "Trusts the 20-line reference climber and the harness's list of layout sites/options (read off grammar.pest); deeper operator chains than 5 operands are covered only through representatives.",
         "DESIGN.md §4 C10"),
 "C11": ("exploration",
         "bounded-exhaustive enumeration of operator x shape x element-pool products against an independent scalar model",
         "All 17 broadcasting operators x {scalar-scalar, list-scalar, scalar-list, list-list, mismatched lengths} over a boundary element pool are enumerated completely and compared element by element with an independent model of the scalar operators; dot operators checked never to broadcast.",
         "Trusts the ~60-line scalar operator model in mc/src/c11.rs; lists longer than 8 and elements outside the pool are not explored.",
         "DESIGN.md §4 C11"),
 "C12": ("exploration",
         "exhaustive pair matrix and triple enumeration over a near-equal value pool",
         "The full pool x pool matrix of the six dot operators, u* built-ins, plain operators and sort is evaluated; all equivalence/order laws are checked on every pair and transitivity on every triple, plus agreement with a reference ordering.",
         "Trusts the reference equals/compare in mc/src/alpha.rs; values outside the 57/77-value pool are not explored.",
         "DESIGN.md §4 C12"),
 "C13": ("exploration",
         "bounded-exhaustive enumeration of (list, function) pairs; differential oracle between equivalent program forms in one session",
         "Every list (all words of length <= 3/4 over a 6-value alphabet plus periodic extensions to 10) x a function pool (all arity classes incl. functions without parameters, closures, self- and mutually recursive named functions, built-ins, non-functions) is evaluated in both forms of each equivalence (via/map, where/filter, into/application, unrolled element+index calls, reduce/left fold, every/some vs folded predicate results) in the same session.",
         "Equivalence is checked by differential evaluation (value equality or both fail); functions outside the pool and lists longer than 10 are not explored.",
         "DESIGN.md §4 C13"),
 "C14": ("exploration",
         "bounded-exhaustive enumeration of lists, strings and records with harness-side reference implementations of every law",
         "Every list of length <= 4/5 over mixed / stability / string / nested alphabets plus periodic extensions to 40, every string of length <= 2/3 over a 24-code-point alphabet, and every small record are bound in a session; ~40 law programs per subject are compared with reference values computed on the harness's own value type (sort permutation/order/stability, unique, reverse, concat/spread, chunk/flatten, head/tail, slice, zip, range, keys/values/entries, group_by/count_by, split/join, indexing, character-based string functions). Fractional indices k + {1/4, 1/2, 3/4} around and inside the range must select one of the two adjacent elements and must select the same element from a subject and from its spread.",
         "Trusts the reference list/string functions in mc/src/c14.rs (Rust std on Vec/char); inputs outside the alphabets are not explored; no rounding mode is assumed for fractional indices.",
         "DESIGN.md §4 C14"),
 "C15": ("exploration",
         "exhaustive enumeration of number lists over a 9-value alphabet with harness-side reference computations",
         "Every number list of length 1..4/5 over a boundary alphabet (plus periodic extensions to 50) is run through all six aggregates in three calling conventions and percentile at 13 p values; results compared with reference computations and across all permutations.",
         "Rounding bounds n*eps*sum|x| (sum) and 2n*eps (prod); overflow-prone cases are excluded from the magnitude checks; NaN elements belong to C01.",
         "DESIGN.md §4 C15"),
 "C16": ("exploration",
         "exhaustive enumeration of a finite double grid and of a literal grammar's short strings; exact-rational reference",
         "Every finite double of the grid N goes through to_string->to_number, JSON output->input, closure capture->emitted source->reload->call and formatter->parser and must come back bit-identical; every string of length <= 5/7 over {0 1 5 9 . _ e E + -} accepted by the documented literal grammar, every short 0x/0b literal and boundary long literals are evaluated and compared with the nearest double of their exact rational value.",
         "Trusts /verif/lib/oracle.py (fractions; int/int division is correctly rounded) and the harness's regex of the documented literal grammar; doubles outside the grid are not explored.",
         "DESIGN.md §4 C16"),
 "C17": ("exploration",
         "exhaustive enumeration of the whole unit table (identifiers, ordered pairs, same-category triples)",
         "The unit table is finite: every identifier (and case variants), every alias, every ordered pair, every same-category triple and every prefixed/base name pair is enumerated; resolution is recomputed independently from the identifier lists, ratios from an independent prefix table, and the algebraic laws checked at 12/24 magnitudes.",
         "Tolerances 2/8/12 ulp relative (identity / round trip / transitivity), temperature 1e-9 relative; magnitudes outside the listed set are not explored.",
         "DESIGN.md §4 C17"),
 "C18": ("exploration",
         "exhaustive enumeration of a recursion grammar, every program executed by the real release binary under the 8 MiB stack limit",
         "28 recursion kinds (self, mutual, anonymous functions reaching themselves through a parameter, via / map / reduce / filter / where / every / some / count_by / group_by callbacks, do-block body, record-wrapped, into, conditional arms, closure-returning-closure; every remaining call site of the evaluator - element-wise via with a list of functions, scalar via, list into, reduce / where / filter / every / some with the function itself as callback - as the only call of the cycle) x 5 nesting constructs x per-call nesting depth 1..32 x {unbounded, bounded to a few hundred calls}: every program runs twice through the release CLI with RLIMIT_STACK = 8 MiB; unbounded recursion must exit 1 with 'maximum call depth', bounded recursion must exit 0 with the value the harness computes. Every program whose lines are statements of their own is also typed into the interactive mode through a pseudo-terminal (stdin is a terminal): limit reported, session alive afterwards, exit status 0.",
         "Depends on the build profile (release, as shipped) and on the 8 MiB limit the property names; nesting deeper than 32 is not explored.",
         "DESIGN.md §4 C18"),
 "C19": ("model_checking",
         "reference model of the CLI contract; every model trace (script x input set x invocation mode) replayed against the real binary",
         "Every script of length <= 3/4 over an 11-statement alphabet x 14 input sets (stdin and/or up to three --input flags: overlapping objects, arrays, scalars, explicit value_1 key, empty stdin, invalid JSON) x 4 invocation modes (file, inline, -e, -o file) is run by the real `blots` binary and compared with a reference model: exit 0 iff all statements succeed, exactly one outputs object with the declared names in declaration order and their values, no object / no --output file on failure, diagnostics present, left-to-right merge with value_n numbering, #name == inputs.name.",
         "Trusts the ~80-line model in mc/src/c19.rs; values are JSON-representable; the interactive REPL is not driven.",
         "DESIGN.md §4 C19"),
 "C20": ("exploration",
         "exhaustive enumeration of a finite double grid; exact-rational reference for the displayed numeral",
         "Every double of the grid N (23 k quick / 455 k thorough) plus NaN, infinities and zeros is rendered by format_display_number and by the format built-in; an exact-rational oracle checks the numeral grammar, |text - x| < 10^(floor(log10|x|) - 14) and exactness of integers below 2^53.",
         "Trusts /verif/lib/oracle.py; doubles outside the grid are not explored.",
         "DESIGN.md §4 C20"),
}

def main():
    props = [json.loads(l) for l in open(os.path.join(VERIF, "properties.jsonl"))]
    checks = []
    na = []
    for p in props:
        pid = p["id"]
        if pid in CLAIMED:
            cat, tech, text, note, ref = CLAIMED[pid]
            checks.append({
                "property_id": pid,
                "quick_cmd": "./check %s --tier quick" % pid,
                "thorough_cmd": "./check %s --tier thorough" % pid,
                "evidence_file": "/verif/evidence/%s.json" % pid,
                "replay_cmd_template": "./check %s --replay {path}" % pid,
                "engine": "mc",
                "level_claimed": {"category": cat, "text": text, "design_ref": ref},
                "level_note": note,
                "technique": tech,
            })
        else:
            na.append({"property_id": pid, "reason": "check still under construction in this round; not claimed yet (model checking is applicable, see DESIGN.md §4)"})
    hooks_commits = subprocess.run(["git", "-C", "/repo", "log", "--format=%H", "--grep=^verif hook"], capture_output=True, text=True).stdout.split()
    m = {
        "version": 1,
        "setup_cmd": "./check --setup",
        "hooks": {
            "guard": "cargo feature `verif-hooks` on blots-core (off by default)",
            "enable": "mc depends on blots-core with features=[\"verif-hooks\"]; the CLI binary driven at process level is built without it",
            "baseline_off_cmd": "cd /repo && cargo test --workspace --no-fail-fast --offline </dev/null",
            "source_commits": hooks_commits,
            "add_only": True,
        },
        "engines": [
            {"name": "mc", "path": "/verif/mc", "serves_properties": sorted(CLAIMED.keys()),
             "kind_free_text": "Rust explorer linked against /repo/blots-core and /repo/blots-wasm/src/lib.rs: explicit-state BFS, generator automaton, finite-domain products, process-level drivers"},
        ],
        "checks": checks,
        "not_applicable": na,
        "notes": "All checks rebuild mc and the release CLI from /repo's working tree first (./check). Exit 0 held / 1 violation / 2 machinery failure. Known findings: /verif/known_findings.json.",
    }
    json.dump(m, open(os.path.join(VERIF, "MANIFEST.json"), "w"), indent=1)
    print("claimed:", sorted(CLAIMED.keys()))

if __name__ == "__main__":
    main()
