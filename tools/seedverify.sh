#!/bin/bash
# usage: tools/seedverify.sh <ID>   -- confirm an agent's seeded change in its scratch worktree:
# tests pass with the change, demo fails with it and passes without it. Prints a JSON summary.
id="$1"; wt=/tmp/seed/wt-$id; out=/tmp/seed/out-$id
cd "$wt" || exit 2
git diff > /tmp/seed/confirm-$id.diff
if ! diff -q <(git diff) "$out/patch.diff" >/dev/null; then echo "note: worktree diff differs from patch.diff; using worktree state re-created from patch.diff"; git checkout -q -- .; git apply "$out/patch.diff" || exit 2; fi
tests=$(CARGO_TARGET_DIR=$wt/target cargo test --workspace --no-fail-fast --offline </dev/null 2>&1 | grep -E "^test result" | awk '{p+=$4; f+=$6} END {print p" passed "f" failed"}')
demo=$(ls $out/demo.sh 2>/dev/null)
with=NA; without=NA
if [ -n "$demo" ]; then
  bash $out/demo.sh >/tmp/seed/demo-$id-with.log 2>&1 </dev/null; with=$?
  git checkout -q -- .
  bash $out/demo.sh >/tmp/seed/demo-$id-without.log 2>&1 </dev/null; without=$?
  git apply "$out/patch.diff"
fi
echo "{\"id\": \"$id\", \"tests_with_change\": \"$tests\", \"demo_exit_with_change\": \"$with\", \"demo_exit_without_change\": \"$without\"}"
