use proc_macro::TokenStream;
/// No-op replacement for `#[wasm_bindgen]`.
#[proc_macro_attribute]
pub fn wasm_bindgen(_attr: TokenStream, item: TokenStream) -> TokenStream {
    item
}
