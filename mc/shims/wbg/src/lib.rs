//! Native stand-in for `wasm-bindgen`, just enough for /repo/blots-wasm/src/lib.rs to compile
//! and run on the host: a JS value is a `serde_json::Value`, `#[wasm_bindgen]` is a no-op.
pub use wbg_macro_shim::wasm_bindgen;
pub type JsValue = serde_json::Value;

#[derive(Debug)]
pub struct JsError {
    pub message: String,
}
impl JsError {
    pub fn new(s: &str) -> Self {
        JsError { message: s.to_string() }
    }
}
impl<E: std::error::Error> From<E> for JsError {
    fn from(e: E) -> Self {
        JsError { message: e.to_string() }
    }
}
pub mod prelude {
    pub use super::{wasm_bindgen, JsError, JsValue};
}
