//! Native stand-in for `serde-wasm-bindgen`: JS values are `serde_json::Value`s.
use serde::de::DeserializeOwned;
use serde::ser::Serialize;
use serde_json::value::Serializer as J;

pub type Error = serde_json::Error;

pub struct Serializer;
impl Serializer {
    pub fn json_compatible() -> Self {
        Serializer
    }
    pub fn new() -> Self {
        Serializer
    }
}

pub fn from_value<T: DeserializeOwned>(v: serde_json::Value) -> Result<T, Error> {
    serde_json::from_value(v)
}

pub fn to_value<T: Serialize + ?Sized>(v: &T) -> Result<serde_json::Value, Error> {
    serde_json::to_value(v)
}

macro_rules! fwd {
    ($($name:ident($($arg:ident : $ty:ty),*) -> $ret:ty;)*) => {
        $(fn $name(self, $($arg: $ty),*) -> Result<$ret, Error> { J.$name($($arg),*) })*
    };
}

impl<'a> serde::Serializer for &'a Serializer {
    type Ok = serde_json::Value;
    type Error = Error;
    type SerializeSeq = <J as serde::Serializer>::SerializeSeq;
    type SerializeTuple = <J as serde::Serializer>::SerializeTuple;
    type SerializeTupleStruct = <J as serde::Serializer>::SerializeTupleStruct;
    type SerializeTupleVariant = <J as serde::Serializer>::SerializeTupleVariant;
    type SerializeMap = <J as serde::Serializer>::SerializeMap;
    type SerializeStruct = <J as serde::Serializer>::SerializeStruct;
    type SerializeStructVariant = <J as serde::Serializer>::SerializeStructVariant;
    fwd! {
        serialize_bool(v: bool) -> Self::Ok;
        serialize_i8(v: i8) -> Self::Ok;
        serialize_i16(v: i16) -> Self::Ok;
        serialize_i32(v: i32) -> Self::Ok;
        serialize_i64(v: i64) -> Self::Ok;
        serialize_u8(v: u8) -> Self::Ok;
        serialize_u16(v: u16) -> Self::Ok;
        serialize_u32(v: u32) -> Self::Ok;
        serialize_u64(v: u64) -> Self::Ok;
        serialize_f32(v: f32) -> Self::Ok;
        serialize_f64(v: f64) -> Self::Ok;
        serialize_char(v: char) -> Self::Ok;
        serialize_str(v: &str) -> Self::Ok;
        serialize_bytes(v: &[u8]) -> Self::Ok;
        serialize_none() -> Self::Ok;
        serialize_unit() -> Self::Ok;
        serialize_unit_struct(name: &'static str) -> Self::Ok;
        serialize_unit_variant(name: &'static str, idx: u32, variant: &'static str) -> Self::Ok;
        serialize_seq(len: Option<usize>) -> Self::SerializeSeq;
        serialize_tuple(len: usize) -> Self::SerializeTuple;
        serialize_tuple_struct(name: &'static str, len: usize) -> Self::SerializeTupleStruct;
        serialize_tuple_variant(name: &'static str, idx: u32, variant: &'static str, len: usize) -> Self::SerializeTupleVariant;
        serialize_map(len: Option<usize>) -> Self::SerializeMap;
        serialize_struct(name: &'static str, len: usize) -> Self::SerializeStruct;
        serialize_struct_variant(name: &'static str, idx: u32, variant: &'static str, len: usize) -> Self::SerializeStructVariant;
    }
    fn serialize_some<T: ?Sized + Serialize>(self, value: &T) -> Result<Self::Ok, Error> {
        J.serialize_some(value)
    }
    fn serialize_newtype_struct<T: ?Sized + Serialize>(self, name: &'static str, value: &T) -> Result<Self::Ok, Error> {
        J.serialize_newtype_struct(name, value)
    }
    fn serialize_newtype_variant<T: ?Sized + Serialize>(self, name: &'static str, idx: u32, variant: &'static str, value: &T) -> Result<Self::Ok, Error> {
        J.serialize_newtype_variant(name, idx, variant, value)
    }
}
