//! C07 — the formatter preserves program meaning; C08 — formatting is idempotent.
//!
//! Programs: reference renderings of every tree of the generator families, the corpus, and
//! statement sequences with comments and blank lines. Widths: every maximum width from 1 up to
//! the saturation bound of each program (beyond which the output provably no longer depends on
//! the width; re-checked per program), plus `None`. Paths: the real wasm driver `format_blots`
//! (native shim), `format_expr` directly, and the real `blots --format` binary.

use crate::common::*;
use crate::parse::*;
use crate::proc::run_cli_format;
use crate::tgen::*;
use crate::wasmdrv::blots_wasm::format_blots;
use blots_core::ast::SpannedExpr;
use serde_json::{Value as J, json};
use std::collections::BTreeMap;

pub fn corpus() -> Vec<(String, String)> {
    let mut out = vec![];
    for dir in ["/repo/examples", "/repo/benches"] {
        if let Ok(rd) = std::fs::read_dir(dir) {
            let mut names: Vec<_> = rd.filter_map(|e| e.ok()).map(|e| e.path()).filter(|p| p.extension().map(|x| x == "blots").unwrap_or(false)).collect();
            names.sort();
            for p in names {
                if let Ok(t) = std::fs::read_to_string(&p) {
                    out.push((p.display().to_string(), t));
                }
            }
        }
    }
    if let Ok(readme) = std::fs::read_to_string("/repo/README.md") {
        let mut in_block = false;
        let mut cur = String::new();
        let mut n = 0;
        for line in readme.lines() {
            if line.trim_start().starts_with("```") {
                if in_block {
                    out.push((format!("README.md#block{}", n), cur.clone()));
                    n += 1;
                    cur.clear();
                    in_block = false;
                } else if line.trim() == "```blots" {
                    in_block = true;
                }
                continue;
            }
            if in_block {
                cur.push_str(line);
                cur.push('\n');
            }
        }
    }
    out
}

/// Format through the real wasm driver. Ok(text) or Err(message).
pub fn fmt_lib(src: &str, width: Option<usize>) -> Result<String, String> {
    match catch(|| format_blots(src, width)) {
        Ok(Ok(v)) => v.as_str().map(|s| s.to_string()).ok_or_else(|| "non-string result".to_string()),
        Ok(Err(e)) => Err(e.message),
        Err(p) => Err(format!("PANIC {}", p)),
    }
}

fn stmts_of(src: &str) -> Result<Vec<SpannedExpr>, String> {
    parse_exprs(src)
}

fn canon_all(v: &[SpannedExpr]) -> String {
    v.iter().map(expr_canon).collect::<Vec<_>>().join(" ;; ")
}

/// Saturation bound: smallest B such that the outputs at B, B+1, 10_000 and None-if-80>=B agree.
fn saturation(src: &str) -> Result<usize, String> {
    let wide = fmt_lib(src, Some(1_000_000))?;
    let longest = wide.lines().map(|l| l.chars().count()).max().unwrap_or(0);
    let mut b = longest + 8;
    loop {
        let at_b = fmt_lib(src, Some(b))?;
        let at_b1 = fmt_lib(src, Some(b + 1))?;
        if at_b == wide && at_b1 == wide {
            return Ok(b);
        }
        b *= 2;
        if b > 20_000 {
            return Err(format!("no saturation below 20000 for {:?}", truncate(src, 80)));
        }
    }
}

/// Syntactic class of a program for known-finding matching: computed from the harness tree
/// where available, else "corpus".
fn classify(t: Option<&T>) -> String {
    match t {
        None => "corpus".into(),
        Some(t) => shape_class(t),
    }
}

/// Coarse description "parent>child@slot" chain of the spine of compound nodes.
pub fn shape_class(t: &T) -> String {
    fn name(t: &T) -> String {
        match t {
            T::Num(_) => "num".into(),
            T::Str(_) => "str".into(),
            T::Bool(_) => "bool".into(),
            T::Null => "null".into(),
            T::Id(_) => "id".into(),
            T::Inp(_) => "inputref".into(),
            T::List(_) => "list".into(),
            T::Rec(_) => "record".into(),
            T::Lam(..) => "lambda".into(),
            T::Cond(..) => "cond".into(),
            T::Do(..) => "do".into(),
            T::Assign(..) => "assign".into(),
            T::Call(..) => "call".into(),
            T::Index(..) => "index".into(),
            T::Field(..) => "field".into(),
            T::Bin(op, ..) => format!("bin[{}]", op_text(*op)),
            T::Neg(_) => "neg".into(),
            T::Bang(_) | T::NotW(_) => "not".into(),
            T::Fact(_) => "fact".into(),
            T::Spread(_) => "spread".into(),
            T::Output(_) => "output".into(),
        }
    }
    let mut parts = vec![name(t)];
    let mut cur = t.clone();
    loop {
        let mut next: Option<(usize, T)> = None;
        let mut idx = 0;
        cur.for_children(|c| {
            if next.is_none() && !c.is_leaf() {
                next = Some((idx, c.clone()));
            }
            idx += 1;
        });
        match next {
            Some((i, c)) => {
                parts.push(format!("@{}:{}", i, name(&c)));
                cur = c;
            }
            None => break,
        }
    }
    parts.join("")
}

struct Prog {
    src: String,
    class: String,
}

fn check_program(ctx: &Ctx, p: &Prog, idem: bool, widths_seen: &std::sync::atomic::AtomicUsize) {
    let want = match stmts_of(&p.src) {
        Ok(v) => v,
        Err(_) => {
            ctx.outcome("unparsable-input-skipped");
            return;
        }
    };
    if want.is_empty() {
        return;
    }
    let b = match saturation(&p.src) {
        Ok(b) => b,
        Err(e) => {
            if e.starts_with("PANIC") {
                ctx.violation(Violation { kind: "format-panic".into(), class: p.class.clone(), input: p.src.clone(), expected: "formatted text".into(), observed: e, case: json!({"src": p.src, "width": 1000000}) });
            } else if e.starts_with("no saturation") {
                ctx.machinery_error(e);
            } else {
                ctx.violation(Violation { kind: "format-fails".into(), class: p.class.clone(), input: p.src.clone(), expected: "formatted text".into(), observed: e, case: json!({"src": p.src, "width": 1000000}) });
            }
            return;
        }
    };
    // every width 1..=b plus None; group identical outputs
    let mut outs: BTreeMap<String, Vec<Option<usize>>> = BTreeMap::new();
    let mut widths: Vec<Option<usize>> = (1..=b).map(Some).collect();
    widths.push(None);
    widths.push(Some(10_000));
    for w in &widths {
        ctx.count(1);
        match fmt_lib(&p.src, *w) {
            Ok(o) => outs.entry(o).or_default().push(*w),
            Err(e) => {
                ctx.violation(Violation {
                    kind: if e.starts_with("PANIC") { "format-panic".into() } else { "format-fails".into() },
                    class: p.class.clone(),
                    input: format!("{} @ width {:?}", p.src, w),
                    expected: "formatted text".into(),
                    observed: e,
                    case: json!({"src": p.src, "width": w}),
                });
                return;
            }
        }
    }
    ctx.add("widths_enumerated", widths.len() as u64);
    let _ = widths_seen;
    ctx.nontrivial(&p.src);
    if outs.len() > 1 {
        ctx.outcome("multi-layout-program");
    }
    for (out, ws) in &outs {
        ctx.outcome("distinct-layout");
        let w0 = ws[0];
        if !idem {
            // C07: the output parses and denotes the same statements
            match stmts_of(out) {
                Ok(got) if got == want => {}
                Ok(got) => ctx.violation(Violation {
                    kind: "meaning-changed".into(),
                    class: p.class.clone(),
                    input: format!("{} @ width {:?}", p.src, w0),
                    expected: canon_all(&want),
                    observed: format!("{}   [formatted: {}]", canon_all(&got), out),
                    case: json!({"src": p.src, "width": w0}),
                }),
                Err(e) => ctx.violation(Violation {
                    kind: "output-unparsable".into(),
                    class: p.class.clone(),
                    input: format!("{} @ width {:?}", p.src, w0),
                    expected: "formatter output parses".into(),
                    observed: format!("{}   [formatted: {}]", truncate(&e, 120), out),
                    case: json!({"src": p.src, "width": w0}),
                }),
            }
        } else {
            // C08: formatting the output again at each width that produced it returns it unchanged
            // (one representative width per group plus the extremes of the group)
            let mut reps = vec![ws[0], ws[ws.len() - 1]];
            reps.dedup();
            for w in reps {
                ctx.count(1);
                match fmt_lib(out, w) {
                    Ok(again) if &again == out => {}
                    Ok(again) => ctx.violation(Violation {
                        kind: "not-idempotent".into(),
                        class: p.class.clone(),
                        input: format!("{} @ width {:?}", p.src, w),
                        expected: out.clone(),
                        observed: again,
                        case: json!({"src": p.src, "width": w}),
                    }),
                    Err(e) => {
                        // an unparsable first output is C07's finding; here it only means the
                        // second pass cannot run
                        ctx.outcome("second-pass-unparsable");
                        let _ = e;
                    }
                }
            }
        }
    }
}

fn replay_one(ctx: &Ctx, src: &str, width: Option<usize>, idem: bool) -> i32 {
    let out = fmt_lib(src, width);
    println!("source:\n{}\nwidth: {:?}\nformatted:\n{}", src, width, out.clone().unwrap_or_else(|e| format!("<error {}>", e)));
    let bad = match &out {
        Err(_) => true,
        Ok(o) => {
            if idem {
                let again = fmt_lib(o, width);
                println!("formatted twice:\n{}", again.clone().unwrap_or_else(|e| format!("<error {}>", e)));
                again.as_ref() != Ok(o)
            } else {
                let a = stmts_of(src);
                let b = stmts_of(o);
                println!("AST before: {}\nAST after:  {}", a.as_ref().map(|v| canon_all(v)).unwrap_or_else(|e| e.clone()), b.as_ref().map(|v| canon_all(v)).unwrap_or_else(|e| e.clone()));
                !matches!((a, b), (Ok(x), Ok(y)) if x == y)
            }
        }
    };
    if bad {
        println!("VIOLATION property={} replay=<replayed>", ctx.prop);
        1
    } else {
        0
    }
}

/// Statement sequences with comments and 0..5 blank lines (for C08, also used by C07).
fn sequences() -> Vec<String> {
    let stmts = [
        "a = 1",
        "b = [1, 2, 3]",
        "f = x => x + 1",
        "output c = {k: 1, j: [1, 2]}",
        "// standalone",
        "d = do {\n  t = 1 // eol in block\n  // own line\n  return t\n}",
        "e = [\n  1, // one\n  // before two\n  2,\n  // last\n]",
        "g = if a > 1 then \"big\" else \"small\"",
        "h = a + b // trailing",
        // multi-byte characters before a gap (byte offsets and character offsets differ from here on)
        "s = \"\u{e9}\"",
        "// caf\u{e9} \u{20ac}",
        "u = \"\u{1f600}\" // \u{e9}",
        // line-break characters inside a string literal before a gap (lines counted from the text and lines
        // counted by the parser differ from here on)
        "m = \"x\r\ny\"",
        "n = \"x\ny\\\"",
        "o = \"a\rb\" // c",
    ];
    let mut out = vec![];
    for (i, s1) in stmts.iter().enumerate() {
        for (j, s2) in stmts.iter().enumerate() {
            for gap in 0..=5usize {
                if (i + j + gap) % 2 == 0 || gap <= 3 {
                    out.push(format!("{}{}{}", s1, "\n".repeat(gap + 1), s2));
                }
            }
        }
    }
    // statements that begin with a negation once redundant parentheses are dropped
    // ... or with a variable named like a word operator (via / into / where are not reserved)
    for second in [
        "(-a) + g", "(-a)", "(-a).k", "(-a)!", "(-(a + b)) * c", "((-a))", "(-a) via f", "(where) - b", "(via) + g", "(into) * 2", "(where) and c", "(via) == 1", "(into) ?? 1", "(where) via f", "(via)", "(into)(1)",
        "(where).k", "(via)[0]", "(where) -b",
    ] {
        for first in ["b", "b = 1", "b // c", "// c", "output b = 2"] {
            out.push(format!("{}\n{}", first, second));
            out.push(format!("{}\n\n{}\nc", first, second));
        }
        out.push(format!("do {{\n  b\n  {}\n  return 1\n}}", second));
        out.push(format!("do {{\n  {}\n  {}\n  return {}\n}}", second, second, second));
    }
    // three statements with mixed gaps, leading / trailing blank lines
    for gap1 in [0usize, 1, 2, 3, 5] {
        for gap2 in [0usize, 1, 2, 4] {
            out.push(format!("{}{}{}{}{}", stmts[0], "\n".repeat(gap1 + 1), stmts[4], "\n".repeat(gap2 + 1), stmts[5]));
            out.push(format!("\n\n{}{}{}{}{}\n\n", stmts[6], "\n".repeat(gap1 + 1), stmts[8], "\n".repeat(gap2 + 1), stmts[3]));
        }
    }
    out
}

pub fn run(ctx: &Ctx, replay: Option<&J>, idem: bool) -> i32 {
    if let Some(r) = replay {
        let src = r["case"]["src"].as_str().unwrap_or("");
        let width = r["case"]["width"].as_u64().map(|w| w as usize);
        if r["case"]["cli"].as_bool() == Some(true) {
            let out = run_cli_format(src);
            println!("source:\n{}\nblots --format output:\n{:?}", src, out);
            return 1;
        }
        return replay_one(ctx, src, width, idem);
    }
    let thorough = !ctx.quick();
    let mut stats = GenStats::default();
    let kinds = all_kinds();
    let reps = representative_kinds();
    let mut trees: Vec<T> = vec![];
    // every kind alone
    for k in &kinds {
        if k.is_expr {
            let mut s = LeafSupply::new();
            trees.push(with_leaves(k, &mut s));
        }
    }
    // T2: parent x child in every slot (single-slot variation), all kinds
    trees.extend(single_slot(&kinds, &kinds, &mut stats));
    // strings made of the language's own punctuation inside operands that need parentheses
    trees.extend(punctuation_string_trees(thorough).into_iter().filter(|t| crate::parse::parse_program(&t.full(), false).is_ok()));
    // every kind x every slot x every literal leaf (those that parse: a literal is not admissible everywhere)
    trees.extend(literal_slot(&kinds).into_iter().filter(|t| crate::parse::parse_program(&t.full(), false).is_ok()));
    if thorough {
        // full products for every parent (all slots filled independently)
        trees.extend(products(&kinds, &kinds, &mut stats));
        // T3 spines over all kinds, T4 over representatives
        trees.extend(spines(&[kinds.clone(), kinds.clone(), kinds.clone()], &mut stats));
        trees.extend(spines(&[reps.clone(), reps.clone(), reps.clone(), reps.clone()], &mut stats));
    } else {
        trees.extend(spines(&[reps.clone(), reps.clone(), reps.clone()], &mut stats));
    }
    let mut progs: Vec<Prog> = trees
        .iter()
        .map(|t| Prog { src: t.full(), class: classify(Some(t)) })
        .collect();
    // wrap a subset at statement level: assignment and output
    for t in trees.iter().step_by(if thorough { 7 } else { 23 }) {
        progs.push(Prog { src: format!("z = {}", t.full()), class: format!("assign>{}", classify(Some(t))) });
        progs.push(Prog { src: format!("output z = {}", t.full()), class: format!("output>{}", classify(Some(t))) });
    }
    // string literals with quotes / backslashes, long lists, numbers
    for s in [
        "'it\"s'", "\"it's\"", "\"a\\b\"", "'\\'", "\"tab\there\"", "{\"a b\": 1, 'c\"d': 2}", "[1.5, 0.1, 1e21, 1e-7, 0xff, 0b101, 1_000, .5, 123456789012345680000]",
        "[1000000000000000, 999999999999999, 1e15, 4503599627370497.5]",
        "longname_aaaaaaaaaa + longname_bbbbbbbbbb * longname_cccccccccc - longname_dddddddddd / longname_eeeeeeeeee",
        "f(aaaaaaaaaaaaaaa, bbbbbbbbbbbbbbbbb, [ccccccccccccc, ddddddddddddd], {k: eeeeeeeeeeee, j: ffffffffff})",
        "if aaaaaaaaaaaaaaaaaaaa > bbbbbbbbbbbbbbbbb then cccccccccccccccccccc else if dddddddd then eeeeeeeeee else ffffffffffff",
        "xs via (x, i) => do {\n  y = x * 2\n  return y + i\n}",
        "data where (row => row.value > 10 and row.ok) via (row => row.value) into sum",
        // invisible / special code points inside string literals, keys and comments (a driver that
        // "cleans" its input text must not touch them)
        "bom = \"a\u{feff}b\" + \"\u{feff}\"",
        "zw = [\"\u{200b}\", \"x\u{a0}y\", \"\u{2028}\", \"\u{85}\", \"\u{ad}\", \"\u{202e}abc\", \"\u{fffe}\", \"\u{7f}\"]",
        "rk = {\"k\u{feff}\": 1, \"\u{200b}\": 2, \"k\": 3} // note \u{feff} \u{200b} end",
        "// \u{feff}leading comment\nafter = \"\u{feff}\"",
        // line-break characters inside string literals and keys, in every multi-line layout path
        "r = xs via (x => do {\n  s = \"a\r\nb\"\n  return [x, s]\n})",
        "r = xs where x => do {\n  return \"a\r\nb\" == x\n}",
        "r = \"p\r\nq\" into (x => do {\n  t = \"c\rd\"\n  return [x, t, \"e\nf\"]\n})",
        "r = [\"a\r\nb\", \"c\rd\", \"e\nf\", \"\r\n\", \"g\r\n\r\nh\"]",
        "r = {\"k\r\nk\": \"v\r\n\", j: [\"\r\"]}",
        "t = f(\"a\r\nb\", g(\"c\r\n\")) via (y => [y, \"\r\n\"])",
        "u = if \"a\r\nb\" == s then \"x\r\ny\" else do {\n  return \"z\r\n\"\n}",
    ] {
        progs.push(Prog { src: s.to_string(), class: "literal-family".into() });
    }
    {
        let (plain, with_comments) = crate::c09::size_family(thorough);
        for s in plain.into_iter().chain(with_comments) {
            progs.push(Prog { src: s, class: "size-family".into() });
        }
    }
    // padding family: compact programs written with enormous indentation, blank lines inside brackets
    // and alignment blanks - the layout may depend on the tree and the width only, never on how wide
    // the source text happened to be
    {
        let compact = [
            "rates = [0.0125, 0.015, 0.0175, 0.02, 0.0225, 0.025]",
            "r = {a: 1, b: [2, 3], c: {d: 4}}",
            "t = f(a, g(b, c), [d, e])",
            "m = [[1, 2], [3, 4], [5, 6]]",
            "v = if a > b then [a, b] else {k: a}",
            "output z = [f(1), g(2, 3), h([4])]",
            "w = (a + b) * (c - d)",
            "q = xs via (x => [x, x]) where (p => p[0] > 1)",
        ];
        for c in compact {
            for pad in [8usize, 44, 100, 300] {
                for blanks in [0usize, 1, 3] {
                    let nl = format!("{}{}", "\n".repeat(blanks + 1), " ".repeat(pad));
                    let mut t = String::new();
                    for ch in c.chars() {
                        match ch {
                            '[' | '{' | '(' => {
                                t.push(ch);
                                t.push_str(&nl);
                            }
                            ',' => {
                                t.push(ch);
                                t.push_str(&nl);
                            }
                            ']' | '}' | ')' => {
                                t.push_str(&nl);
                                t.push(ch);
                            }
                            '=' | ':' if pad < 100 => {
                                t.push_str(&" ".repeat(pad / 4));
                                t.push(ch);
                                t.push_str(&" ".repeat(pad / 4));
                            }
                            _ => t.push(ch),
                        }
                    }
                    progs.push(Prog { src: t.replace("= >", "=>").replace("=  >", "=>"), class: "padding-family".into() });
                }
            }
        }
    }
    for (name, text) in corpus() {
        // whole files and each statement alone
        progs.push(Prog { src: text.clone(), class: format!("corpus:{}", name) });
    }
    for s in sequences() {
        // (also with Windows line endings: the grammar admits "\r\n" wherever it admits "\n")
        progs.push(Prog { src: s.replace('\n', "\r\n"), class: "sequence".into() });
        progs.push(Prog { src: s, class: "sequence".into() });
    }
    for (i, s) in crate::c09::commented_programs(thorough).into_iter().enumerate() {
        if i % 3 == 0 {
            progs.push(Prog { src: s.replace('\n', "\r\n"), class: "commented-template".into() });
        }
        progs.push(Prog { src: s, class: "commented-template".into() });
    }
    // dedup by source
    {
        let mut seen = std::collections::HashSet::new();
        progs.retain(|p| seen.insert(p.src.clone()));
    }
    ctx.set("programs", json!(progs.len()));
    let widths_seen = std::sync::atomic::AtomicUsize::new(0);
    par_for_ctx(ctx, progs.len(), |i| check_program(ctx, &progs[i], idem, &widths_seen));

    // ---- the real CLI: all generated single-line programs in one file per batch; corpus files
    let cli_inputs: Vec<String> = {
        let mut v: Vec<String> = corpus().into_iter().map(|(_, t)| t).collect();
        // batches of generated programs, one statement per line group
        let mut singles: Vec<&Prog> = progs.iter().filter(|p| !p.class.starts_with("corpus") && p.class != "sequence" && p.class != "commented-template" && (!p.class.ends_with("-family") || stmts_of(&p.src).is_ok())).collect();
        // hand-written families first: the quick tier sends only the first batches through the binary
        singles.sort_by_key(|p| if p.class.ends_with("-family") { 0 } else { 1 });
        for chunk in singles.chunks(400).take(if thorough { 200 } else { 12 }) {
            // a line that starts with `-` would continue the previous statement: parenthesise it
            v.push(
                chunk
                    .iter()
                    .map(|p| if p.src.starts_with('-') { format!("({})", p.src) } else { p.src.clone() })
                    .collect::<Vec<_>>()
                    .join("\n"),
            );
        }
        v.extend(sequences().into_iter().step_by(9));
        v.extend(crate::c09::commented_programs(false).into_iter().step_by(5));
        v
    };
    let cli_results: Vec<Result<String, String>> = par_map(&cli_inputs, |src| run_cli_format(src));
    for (src, res) in cli_inputs.iter().zip(cli_results.iter()) {
        ctx.count(1);
        ctx.outcome("cli-format-run");
        let want = match stmts_of(src) {
            Ok(v) => v,
            Err(e) => {
                // the harness's own batch file must parse: otherwise the batch checks nothing
                ctx.machinery_error(format!("CLI batch does not parse: {}", truncate(&e, 300)));
                continue;
            }
        };
        match res {
            Err(e) => ctx.violation(Violation {
                kind: "cli-format-fails".into(),
                class: "cli".into(),
                input: truncate(src, 400),
                expected: "blots --format succeeds".into(),
                observed: e.clone(),
                case: json!({"src": src, "cli": true}),
            }),
            Ok(out) => {
                if !idem {
                    match stmts_of(out) {
                        Ok(got) if got == want => {}
                        Ok(got) => {
                            // locate the first differing statement for the report
                            let k = got.iter().zip(want.iter()).position(|(a, b)| a != b).unwrap_or(0);
                            ctx.violation(Violation {
                                kind: "cli-meaning-changed".into(),
                                class: "cli".into(),
                                input: want.get(k).map(expr_canon).unwrap_or_default(),
                                expected: want.get(k).map(expr_canon).unwrap_or_default(),
                                observed: got.get(k).map(expr_canon).unwrap_or_else(|| "<missing statement>".into()),
                                case: json!({"src": src, "cli": true}),
                            })
                        }
                        Err(e) => ctx.violation(Violation {
                            kind: "cli-output-unparsable".into(),
                            class: "cli".into(),
                            input: truncate(src, 400),
                            expected: "output parses".into(),
                            observed: truncate(&e, 300),
                            case: json!({"src": src, "cli": true}),
                        }),
                    }
                } else {
                    match run_cli_format(out) {
                        Ok(again) if &again == out => {}
                        Ok(again) => {
                            let k = again.lines().zip(out.lines()).position(|(a, b)| a != b).unwrap_or(0);
                            ctx.violation(Violation {
                                kind: "cli-not-idempotent".into(),
                                class: "cli".into(),
                                input: truncate(src, 400),
                                expected: out.lines().nth(k).unwrap_or("").to_string(),
                                observed: again.lines().nth(k).unwrap_or("<missing>").to_string(),
                                case: json!({"src": src, "cli": true}),
                            })
                        }
                        Err(_) => ctx.outcome("cli-second-pass-unparsable"),
                    }
                }
            }
        }
    }

    ctx.set("generator", json!({"states": stats.states, "transitions": stats.transitions, "complete_trees": stats.complete}));
    for p in progs.iter().step_by(progs.len() / 6 + 1) {
        ctx.sample(json!({"program": truncate(&p.src, 200), "class": p.class}));
    }
    ctx.require_outcome("distinct-layout", 1000);
    ctx.require_outcome("multi-layout-program", 500);
    ctx.require_outcome("cli-format-run", 10);
    ctx.assume("widths above each program's saturation bound give the same output as at the bound (re-checked per program at B, B+1 and 10^6)");
    finish(
        ctx,
        "exploration",
        if idem {
            "same programs and widths as C07 plus statement sequences with comments and 0..5 blank lines; for every distinct output of every (program, width): format(output, width) == output; through format_blots (native shim) and blots --format; distinct = distinct programs"
        } else {
            "reference renderings of every tree of the generator families (every kind; parent x child in every slot; every kind x slot x 13 literal leaves; punctuation-string operands under every parenthesis-requiring wrapper; thorough: full slot products, depth-3 spines over all kinds, depth-4 spines over class representatives), literal families, a size family (containers, calls, parameter lists, chains, statement sequences, strings and nestings of 10 / 38 / 100, thorough 9..257, elements or levels), the corpus and comment/blank-line sequences x every width 1..saturation bound plus None; every distinct output re-parsed and compared statement by statement (AST PartialEq, spans ignored) with the input; through format_blots (native shim) and blots --format; distinct = distinct programs"
        },
        true,
        Some((stats.states, stats.transitions, stats.transitions)).filter(|_| false),
    )
}
