use crate::common::Ctx;
pub fn run(_ctx: &Ctx, _replay: Option<&serde_json::Value>, _idem: bool) -> i32 {
    eprintln!("not implemented");
    2
}
