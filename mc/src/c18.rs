//! C18 — runaway recursion ends in a call-depth error, never in a crash.
//!
//! Every program of a recursion grammar (recursion kind x per-call expression nesting depth x
//! nesting operator) is run through the real release `blots` binary under RLIMIT_STACK = 8 MiB:
//! the unbounded variant must exit 1 with "maximum call depth", the bounded variant (a few hundred
//! calls deep) must exit 0 with the right value.

use crate::common::*;
use crate::proc::{run_blots, scratch_file};
use serde_json::{Value as J, json};

const STACK: u64 = 8 << 20;

#[derive(Clone, Copy, Debug, PartialEq)]
enum Wrap {
    Plus,
    Neg,
    List,
    CallArg,
    /// nested do-blocks (each adds a scope), the innermost step passing through a helper that is
    /// defined *after* the recursive function (a late-bound top-level name: found only at the far
    /// end of the scope chain)
    DoLate,
}

const WRAPS: [Wrap; 5] = [Wrap::Plus, Wrap::Neg, Wrap::List, Wrap::CallArg, Wrap::DoLate];

/// Wrap `inner` in `d` levels of the nesting construct. Returns (text, additive contribution).
fn wrap(w: Wrap, d: usize, inner: &str) -> String {
    let mut s = inner.to_string();
    match w {
        Wrap::Plus => {
            for _ in 0..d {
                s = format!("(1 + {})", s);
            }
        }
        Wrap::Neg => {
            for _ in 0..d {
                s = format!("(-{})", s);
            }
        }
        Wrap::List => {
            for _ in 0..d {
                s = format!("[{}]", s);
            }
            for _ in 0..d {
                s = format!("{}[0]", s);
            }
        }
        Wrap::CallArg => {
            for _ in 0..d {
                s = format!("id({})", s);
            }
        }
        Wrap::DoLate => {
            s = format!("late({})", s);
            for i in 0..d {
                s = format!("do {{\n  t{} = n\n  return {}\n}}", i, s);
            }
        }
    }
    s
}

struct Kind {
    name: &'static str,
    /// program text given the wrapped recursive step; `{STEP}` is replaced by the wrapped call,
    /// `{NEXT}` inside the step by the argument expression
    defs: &'static str,
    /// the recursive call expression (as used inside the wrap)
    call: &'static str,
    /// levels for the bounded variant
    levels: usize,
    /// the expression that stands for the counter inside the body (the parameter is always `n`)
    var: &'static str,
    /// the top-level call, `{N}` = number of levels
    top: &'static str,
    /// the function is used as a predicate: it returns a boolean (`{STEP} >= 0`), the base case is `true`
    boolean: bool,
}

const K0: Kind = Kind { name: "", defs: "", call: "", levels: 0, var: "n", top: "f({N})", boolean: false };

fn kinds() -> Vec<Kind> {
    vec![
        Kind { name: "self", defs: "f = n => {GUARD}{STEP}", call: "f({NEXT})", levels: 300, ..K0 },
        Kind { name: "mutual", defs: "f = n => {GUARD}{STEP}\ng = n => {GUARDG}{STEPG}", call: "g({NEXT})", levels: 300, ..K0 },
        Kind { name: "via-callback", defs: "f = n => {GUARD}{STEP}", call: "([{NEXT}] via f)[0]", levels: 300, ..K0 },
        Kind { name: "map-callback", defs: "f = n => {GUARD}{STEP}", call: "map([{NEXT}], f)[0]", levels: 150, ..K0 },
        Kind { name: "reduce-callback", defs: "f = n => {GUARD}{STEP}", call: "reduce([{NEXT}], (a, x) => f(x), 0)", levels: 150, ..K0 },
        Kind { name: "filter-callback", defs: "f = n => {GUARD}{STEP}", call: "(len(filter([{NEXT}], x => f(x) >= 0)) - 1)", levels: 150, ..K0 },
        Kind { name: "count_by-callback", defs: "f = n => {GUARD}{STEP}", call: "(len(keys(count_by([{NEXT}], x => to_string(f(x))))) - 1)", levels: 150, ..K0 },
        Kind { name: "group_by-callback", defs: "f = n => {GUARD}{STEP}", call: "(len(keys(group_by([{NEXT}], x => to_string(f(x))))) - 1)", levels: 150, ..K0 },
        Kind { name: "every-callback", defs: "f = n => {GUARD}{STEP}", call: "(if every([{NEXT}], x => f(x) >= 0) then 0 else 1)", levels: 150, ..K0 },
        Kind { name: "some-callback", defs: "f = n => {GUARD}{STEP}", call: "(if some([{NEXT}], x => f(x) >= 0) then 0 else 1)", levels: 150, ..K0 },
        Kind { name: "where-callback", defs: "f = n => {GUARD}{STEP}", call: "(len([{NEXT}] where (x => f(x) >= 0)) - 1)", levels: 150, ..K0 },
        // recursion whose cycle contains no named function: the lambda lives in a record field, in a list,
        // or is passed inline, and reaches itself through a parameter
        Kind { name: "anonymous-in-record", defs: "k = {go: (self, n) => {GUARD}{STEP}}\nf = n => k.go(k.go, n)", call: "self(self, {NEXT})", levels: 300, ..K0 },
        Kind { name: "anonymous-in-list", defs: "fs = [(self, n) => {GUARD}{STEP}]\nf = n => fs[0](fs[0], n)", call: "self(self, {NEXT})", levels: 300, ..K0 },
        Kind { name: "anonymous-inline-argument", defs: "f = n => (g => g(g, n))((self, n) => {GUARD}{STEP})", call: "self(self, {NEXT})", levels: 300, ..K0 },
        Kind { name: "anonymous-via-callback", defs: "fs = [(self, n) => {GUARD}{STEP}]\nf = n => fs[0](fs[0], n)", call: "([{NEXT}] via (m => self(self, m)))[0]", levels: 150, ..K0 },
        Kind { name: "do-block", defs: "f = n => {GUARD}do {\n  m = {NEXT}\n  r = {STEPM}\n  return r\n}", call: "f(m)", levels: 300, ..K0 },
        Kind { name: "record-wrapped", defs: "f = n => {GUARD}{STEP}", call: "{k: f({NEXT})}.k", levels: 300, ..K0 },
        Kind { name: "into", defs: "f = n => {GUARD}{STEP}", call: "(({NEXT}) into f)", levels: 300, ..K0 },
        Kind { name: "conditional-arms", defs: "f = n => {GUARD}{STEP}", call: "(if n == n then f({NEXT}) else f({NEXT}))", levels: 300, ..K0 },
        // the remaining call sites of the evaluator, each as the *only* call in the cycle (a site that forgets
        // to count is not covered up by a counted one next to it)
        Kind { name: "via-function-list", defs: "f = n => {GUARD}{STEP}", call: "([{NEXT}] via [f])[0]", levels: 300, ..K0 },
        Kind { name: "scalar-via", defs: "f = n => {GUARD}{STEP}", call: "(({NEXT}) via f)", levels: 300, ..K0 },
        Kind { name: "list-into", defs: "f = n => {GUARD}{STEP}", call: "([{NEXT}] into f)", levels: 300, var: "n[0]", top: "f([{N}])", ..K0 },
        Kind { name: "reduce-direct", defs: "f = (a, n) => {GUARD}{STEP}", call: "reduce([{NEXT}], f, 0)", levels: 150, top: "f(0, {N})", ..K0 },
        Kind { name: "where-direct", defs: "f = n => {GUARD}({STEP}) >= 0", call: "(len([{NEXT}] where f) - 1)", levels: 150, boolean: true, ..K0 },
        Kind { name: "filter-direct", defs: "f = n => {GUARD}({STEP}) >= 0", call: "(len(filter([{NEXT}], f)) - 1)", levels: 150, boolean: true, ..K0 },
        Kind { name: "every-direct", defs: "f = n => {GUARD}({STEP}) >= 0", call: "(if every([{NEXT}], f) then 0 else 1)", levels: 150, boolean: true, ..K0 },
        Kind { name: "some-direct", defs: "f = n => {GUARD}({STEP}) >= 0", call: "(if some([{NEXT}], f) then 0 else 1)", levels: 150, boolean: true, ..K0 },
        Kind { name: "closure-in-closure", defs: "mk = k => (n => {GUARD}{STEP})\nf = mk(1)", call: "mk(k)({NEXT})", levels: 300, ..K0 },
    ]
}

struct Prog {
    kind: &'static str,
    wrap: Wrap,
    depth: usize,
    bounded: bool,
    source: String,
    expected: Option<f64>,
}

fn build(k: &Kind, w: Wrap, d: usize, bounded: bool) -> Prog {
    let next = if bounded { format!("{} - 1", k.var) } else { format!("{} + 1", k.var) };
    let next = next.as_str();
    let guard = if !bounded { String::new() } else if k.boolean { format!("if {} <= 0 then true else ", k.var) } else { format!("if {} <= 0 then 0 else ", k.var) };
    let guard = guard.as_str();
    let call = k.call.replace("{NEXT}", next);
    let step = wrap(w, d, &call);
    // do-block kind: the step refers to m
    let step_m = wrap(w, d, k.call);
    let mut defs = k
        .defs
        .replace("{GUARD}", guard)
        .replace("{STEPM}", &step_m)
        .replace("{STEP}", &step)
        .replace("{NEXT}", next);
    if k.name == "mutual" {
        let step_g = wrap(w, d, &format!("f({})", next));
        defs = defs.replace("{GUARDG}", guard).replace("{STEPG}", &step_g);
    }
    let levels = k.levels;
    let source = format!("id = x => x\n{}\nlate = x => x\noutput r = {}\n", defs, k.top.replace("{N}", &if bounded { levels.to_string() } else { "0".into() }));
    // expected value of the bounded variant
    let per_level = match w {
        Wrap::Plus => d as f64,
        _ => 0.0,
    };
    let call_levels = if k.name == "mutual" { levels } else { levels };
    let expected = if bounded {
        Some(match k.name {
            // the callback's value is only tested, not accumulated
            "filter-callback" | "count_by-callback" | "group_by-callback" | "every-callback" | "some-callback" | "where-callback" => per_level,
            // a predicate: the output is `true`, only the exit status is checked
            _ if k.boolean => f64::NAN,
            _ => per_level * call_levels as f64,
        })
    } else {
        None
    };
    Prog { kind: k.name, wrap: w, depth: d, bounded, source, expected }
}

fn judge(ctx: &Ctx, p: &Prog) {
    let file = scratch_file("rec");
    if std::fs::write(&file, &p.source).is_err() {
        ctx.machinery_error("cannot write scratch file".into());
        return;
    }
    let mut results = vec![];
    for _ in 0..2 {
        results.push(run_blots(&[file.clone()], None, Some(STACK)));
        ctx.count(1);
    }
    let _ = std::fs::remove_file(&file);
    let class = format!("{}|{:?}", p.kind, p.wrap);
    let case = json!({"source": p.source, "bounded": p.bounded});
    if results[0].code != results[1].code || results[0].signal != results[1].signal {
        ctx.violation(Violation { kind: "nondeterministic-outcome".into(), class: class.clone(), input: p.source.clone(), expected: "same outcome twice".into(), observed: format!("{} / {}", results[0].describe(), results[1].describe()), case: case.clone() });
        return;
    }
    let r = &results[0];
    ctx.nontrivial(&format!("{}|{}|{}", class, p.depth, p.bounded));
    if !p.bounded {
        let ok = r.code == Some(1) && r.signal.is_none() && r.stdout.contains("maximum call depth");
        ctx.outcome(if ok { "unbounded-call-depth-error" } else { "unbounded-other" });
        if !ok {
            ctx.violation(Violation {
                kind: if r.crashed() { "crash-instead-of-call-depth-error".into() } else { "no-call-depth-error".into() },
                class,
                input: format!("[nesting {} x {:?}] {}", p.depth, p.wrap, p.source),
                expected: "exit 1 with 'maximum call depth ... exceeded'".into(),
                observed: r.describe(),
                case,
            });
        }
    } else {
        let value = serde_json::from_str::<J>(r.stdout.trim()).ok().and_then(|j| j.get("r").and_then(|v| v.as_f64()));
        let want = p.expected.unwrap_or(0.0);
        let ok = r.code == Some(0) && (want.is_nan() || value == Some(want));
        ctx.outcome(if ok { "bounded-completes" } else { "bounded-other" });
        if !ok {
            ctx.violation(Violation {
                kind: if r.crashed() { "bounded-recursion-crashes".into() } else { "bounded-recursion-wrong".into() },
                class,
                input: format!("[nesting {} x {:?}] {}", p.depth, p.wrap, p.source),
                expected: format!("exit 0 with r = {}", want),
                observed: r.describe(),
                case,
            });
        }
    }
}


/// The same program typed line by line into the interactive mode (stdin is a terminal): the limit
/// is reported, the session goes on and ends normally.
fn judge_repl(ctx: &Ctx, p: &Prog) {
    let lines: Vec<String> = p.source.lines().map(|l| l.to_string()).collect();
    let r = crate::proc::run_pty(&crate::proc::blots_bin(), &[], &lines, "\"<<\" + \"done>>\"", "<<done>>", Some(STACK), std::time::Duration::from_secs(30));
    ctx.count(1);
    let class = format!("repl|{}|{:?}", p.kind, p.wrap);
    let case = json!({"source": p.source, "bounded": p.bounded, "repl": true});
    ctx.nontrivial(&format!("{}|{}|{}", class, p.depth, p.bounded));
    let alive = r.stderr == "marker-seen" && r.code == Some(0) && r.signal.is_none() && !r.timed_out;
    let reported = r.stdout.contains("maximum call depth");
    let ok = alive && (p.bounded != reported);
    ctx.outcome(if !ok { "repl-other" } else if p.bounded { "repl-bounded-completes" } else { "repl-call-depth-error" });
    if !ok {
        ctx.violation(Violation {
            kind: if !alive { "repl-session-dies".into() } else if p.bounded { "repl-bounded-recursion-wrong".into() } else { "repl-no-call-depth-error".into() },
            class,
            input: format!("[interactive; nesting {} x {:?}] {}", p.depth, p.wrap, p.source),
            expected: if p.bounded { "the value, then the session continues and ends with status 0".into() } else { "'maximum call depth ... exceeded', then the session continues and ends with status 0".into() },
            observed: format!("exit={:?} signal={:?}{} {} transcript tail={:?}", r.code, r.signal, if r.timed_out { " TIMEOUT" } else { "" }, r.stderr, tail_of(&r.stdout, 300)),
            case,
        });
    }
}

fn tail_of(s: &str, n: usize) -> String {
    let cs: Vec<char> = s.chars().collect();
    cs[cs.len().saturating_sub(n)..].iter().collect()
}

pub fn run(ctx: &Ctx, replay: Option<&J>) -> i32 {
    if let Some(r) = replay {
        let src = r["case"]["source"].as_str().unwrap_or("");
        if r["case"]["repl"].as_bool() == Some(true) {
            let lines: Vec<String> = src.lines().map(|l| l.to_string()).collect();
            let res = crate::proc::run_pty(&crate::proc::blots_bin(), &[], &lines, "\"<<\" + \"done>>\"", "<<done>>", Some(STACK), std::time::Duration::from_secs(30));
            println!("{}\n-> exit={:?} signal={:?} {}\n{}", src, res.code, res.signal, res.stderr, tail_of(&res.stdout, 600));
            let bounded = r["case"]["bounded"].as_bool().unwrap_or(false);
            let ok = res.stderr == "marker-seen" && res.code == Some(0) && (bounded != res.stdout.contains("maximum call depth"));
            if !ok {
                println!("VIOLATION property=C18 replay=<replayed>");
                return 1;
            }
            return 0;
        }
        let file = scratch_file("replay");
        let _ = std::fs::write(&file, src);
        let res = run_blots(&[file.clone()], None, Some(STACK));
        let _ = std::fs::remove_file(&file);
        println!("{}\n-> {}", src, res.describe());
        let bounded = r["case"]["bounded"].as_bool().unwrap_or(false);
        let ok = if bounded { res.code == Some(0) } else { res.code == Some(1) && res.stdout.contains("maximum call depth") };
        if !ok {
            println!("VIOLATION property=C18 replay=<replayed>");
            return 1;
        }
        return 0;
    }
    let depths: Vec<usize> = if ctx.quick() { vec![1, 2, 4, 8, 16, 32] } else { (1..=32).collect() };
    let ks = kinds();
    let mut progs = vec![];
    for k in &ks {
        for w in WRAPS {
            for &d in &depths {
                progs.push(build(k, w, d, false));
                progs.push(build(k, w, d, true));
            }
        }
    }
    ctx.set("programs", json!(progs.len()));
    ctx.set("stack_limit_bytes", json!(STACK));
    par_for(progs.len(), |i| judge(ctx, &progs[i]));
    // interactive mode: the programs whose every line is a statement of its own
    let repl_depths: &[usize] = if ctx.quick() { &[1, 32] } else { &[1, 2, 4, 8, 16, 32] };
    let repl_progs: Vec<&Prog> = progs
        .iter()
        .filter(|p| repl_depths.contains(&p.depth) && p.source.lines().all(|l| crate::parse::parse_program(l, false).is_ok()))
        .collect();
    ctx.set("repl_programs", json!(repl_progs.len()));
    par_for(repl_progs.len(), |i| judge_repl(ctx, repl_progs[i]));
    ctx.require_outcome("repl-call-depth-error", 20);
    ctx.require_outcome("repl-bounded-completes", 20);
    crate::proc::cleanup_scratch();
    ctx.sample(json!({"unbounded": progs[0].source}));
    ctx.sample(json!({"bounded": progs[progs.len() / 2 + 1].source}));
    ctx.sample(json!({"deep": truncate(&progs[progs.len() - 2].source, 400)}));
    ctx.require_outcome("unbounded-call-depth-error", 50);
    ctx.require_outcome("bounded-completes", 50);
    ctx.assume("the release binary built from /repo's working tree (hooks off) run with RLIMIT_STACK = 8 MiB; nesting depths 1..32");
    finish(
        ctx,
        "exploration",
        "recursion grammar: 28 recursion kinds (self, mutual, anonymous lambdas held in a record / a list / passed inline that reach themselves through a parameter, via / map / reduce / filter / where / every / some / count_by / group_by callbacks, do-block body, record-wrapped, into, conditional arms, closure-returning-closure; and each remaining call site of the evaluator as the only call of the cycle: element-wise via with a list of functions, scalar via, list into, reduce / where / filter / every / some with the function itself as callback) x 5 nesting constructs (binary +, unary -, list literal + index, call argument, nested do-blocks around a helper defined after the function) x per-call nesting depth 1..32 (quick: 1,2,4,8,16,32) x {unbounded, bounded to a few hundred calls}; every program run twice through the release CLI under an 8 MiB stack limit; every program whose lines are statements of their own also typed into the interactive mode through a pseudo-terminal (limit reported, session alive, status 0); distinct = distinct programs",
        true,
        None,
    )
}
