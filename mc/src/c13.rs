//! C13 — via / where / into agree with map / filter / application for every function.

use crate::alpha::*;
use crate::common::*;
use serde_json::{Value as J, json};

const PRELUDE: &str = r#"
k = 10
inc = x => x + 1
add = (x, y) => x + y
opt = (x, i?) => [x, i]
rest = (...r) => r
clo = x => x + k
curried = x => y => x + y
fact = n => if n <= 1 then 1 else n * fact(n - 1)
ev = n => if n <= 0 then true else od(n - 1)
od = n => if n <= 0 then false else ev(n - 1)
count_down = (n, i) => if n <= 0 then i else count_down(n - 1, i)
pos = x => x > 0
isnum = x => typeof(x) == "number"
nonbool = x => x
partial = x => if x > 2 then nope else x
idx_even = (x, i) => i % 2 == 0
rec_pred = n => if n <= 0 then true else if n == 1 then false else rec_pred(n - 2)
tostr = x => to_string(x)
wrap = x => [x]
two = (a, b) => [a, b]
radd = (a, x) => a + x
r3 = (a, x, i) => a + x * i
ropt = (a, x, i?) => [a, x, i]
rrest = (...r) => r
rrec = (a, x) => if x <= 0 then a else rrec(a + 1, x - 1)
zero = () => 7
zerob = () => true
"#;

/// (name or expression, arity class: how many positional arguments it accepts up to 3)
struct F {
    src: String,
    accepts: [bool; 4], // accepts[n] = can be called with n arguments
}

fn unary_funcs() -> Vec<F> {
    let f = |src: &str, a1, a2, a3| F { src: src.to_string(), accepts: [false, a1, a2, a3] };
    let mut v = vec![
        f("inc", true, false, false),
        f("add", false, true, false),
        f("opt", true, true, false),
        f("rest", true, true, true),
        f("clo", true, false, false),
        f("curried", true, false, false),
        f("fact", true, false, false),
        f("ev", true, false, false),
        f("od", true, false, false),
        f("count_down", false, true, false),
        f("pos", true, false, false),
        f("isnum", true, false, false),
        f("nonbool", true, false, false),
        f("partial", true, false, false),
        f("idx_even", false, true, false),
        f("rec_pred", true, false, false),
        f("tostr", true, false, false),
        f("wrap", true, false, false),
        f("two", false, true, false),
        f("(x => x * 2)", true, false, false),
        f("((x, i) => x + i)", false, true, false),
        f("sqrt", true, false, false),
        f("round", true, true, false),
        f("max", true, true, true),
        f("range", true, true, false),
        f("typeof", true, false, false),
        f("to_string", true, false, false),
        f("abs", true, false, false),
        f("len", true, false, false),
        f("sum", true, true, true),
        // built-ins that take exactly two arguments (element, index)
        f("ugt", false, true, false),
        f("includes", false, true, false),
        f("chunk", false, true, false),
        f("concat", false, true, true),
        f("format", true, true, true),
        f("min", true, true, true),
        // callbacks that accept no argument at all, and one that needs three
        f("zero", false, false, false),
        f("zerob", false, false, false),
        f("(() => 7)", false, false, false),
        f("(() => true)", false, false, false),
        f("r3", false, false, true),
        f("5", false, false, false),
        f("nothing_bound", false, false, false),
    ];
    // every parameter shape (required, optional, rest), as a function returning its parameters and
    // as a predicate on its second parameter
    for sh in shapes() {
        v.push(F { src: sh.name.clone(), accepts: sh.accepts });
        v.push(F { src: format!("p{}", sh.name), accepts: sh.accepts });
    }
    v
}

struct Shape {
    name: String,
    params: String,
    names: Vec<String>,
    accepts: [bool; 4],
}

/// Every parameter list with r required, o optional parameters and an optional rest parameter,
/// 1 <= r + o + rest <= 4.
fn shapes() -> Vec<Shape> {
    let mut out = vec![];
    for r in 0..=3usize {
        for o in 0..=3usize {
            for rest in [false, true] {
                let n = r + o + rest as usize;
                if n == 0 || n > 4 {
                    continue;
                }
                let mut names: Vec<String> = vec![];
                let mut params: Vec<String> = vec![];
                for i in 0..r {
                    names.push(format!("p{}", i));
                    params.push(format!("p{}", i));
                }
                for i in 0..o {
                    names.push(format!("q{}", i));
                    params.push(format!("q{}?", i));
                }
                if rest {
                    names.push("z".into());
                    params.push("...z".into());
                }
                let mut accepts = [false; 4];
                for (k, a) in accepts.iter_mut().enumerate() {
                    *a = k >= 1 && k >= r && (rest || k <= r + o);
                }
                out.push(Shape { name: format!("sh_r{}o{}{}", r, o, if rest { "z" } else { "" }), params: params.join(", "), names, accepts });
            }
        }
    }
    out
}

fn prelude() -> String {
    let mut p = PRELUDE.to_string();
    for sh in shapes() {
        p.push_str(&format!("{} = ({}) => [{}]\n", sh.name, sh.params, sh.names.join(", ")));
        // the expression that denotes the second positional argument inside the function
        let fixed = sh.names.iter().filter(|n| n.as_str() != "z").count();
        let second = if fixed >= 2 {
            sh.names[1].clone()
        } else if sh.names.iter().any(|n| n == "z") {
            format!("z[{}]", 1 - fixed)
        } else {
            "0".to_string()
        };
        p.push_str(&format!("p{} = ({}) => typeof({}) == \"number\"\n", sh.name, sh.params, second));
    }
    p
}

fn fold_funcs() -> Vec<F> {
    let f = |src: &str, a2, a3| F { src: src.to_string(), accepts: [false, false, a2, a3] };
    let mut v = vec![
        f("radd", true, false),
        f("r3", false, true),
        f("ropt", true, true),
        f("rrest", true, true),
        f("rrec", true, false),
        f("max", true, true),
        f("add", true, false),
        f("two", true, false),
        f("((a, x) => a * 2 + x)", true, false),
        f("inc", false, false),
    ];
    for sh in shapes() {
        v.push(F { src: sh.name.clone(), accepts: [false, false, sh.accepts[2], sh.accepts[3]] });
    }
    v
}

fn lists(thorough: bool) -> Vec<Vec<RV>> {
    let alpha = vec![RV::Num(0.0), RV::Num(1.0), RV::Num(3.0), RV::Num(-2.0), RV::s("a"), RV::Null];
    let mut v = words(&alpha, if thorough { 4 } else { 3 });
    let ext: Vec<RV> = vec![RV::Num(4.0), RV::Num(1.0), RV::Num(-1.0), RV::Num(2.0)];
    for w in words(&ext, 2).into_iter().filter(|w| !w.is_empty()) {
        for n in [4usize, 5, 7, 10] {
            v.push(extend_periodic(&w, n));
        }
    }
    // size ladder (sizes around powers of two and ten)
    let sizes: &[usize] = if thorough { &[100, 255, 256, 257, 1000, 1024, 1025, 4097] } else { &[257, 1025] };
    for &n in sizes {
        v.push(extend_periodic(&[RV::Num(4.0), RV::Num(1.0), RV::Num(-1.0), RV::Num(2.0), RV::Num(0.0)], n));
        v.push((0..n).map(|i| RV::Num(((7 * i + 3) % 11) as f64 - 5.0)).collect());
    }
    v.push(vec![RV::Bool(true), RV::Bool(false)]);
    v.push(vec![RV::List(vec![RV::Num(1.0), RV::Num(2.0)]), RV::List(vec![])]);
    v
}

struct Pair {
    a: String,
    b: String,
    kind: &'static str,
}

fn same(a: &Outcome, b: &Outcome) -> bool {
    match (a, b) {
        (Outcome::Ok(x), Outcome::Ok(y)) => x == y,
        (Outcome::EvalError(_), Outcome::EvalError(_)) => true,
        _ => false,
    }
}

fn check_list(ctx: &Ctx, l: &[RV]) {
    let mut sess = Session::new();
    let o = sess.run(&prelude());
    if !o.is_ok() {
        ctx.machinery_error(format!("prelude failed: {:?}", o));
        return;
    }
    let ls = RV::List(l.to_vec()).src();
    let mut pairs: Vec<Pair> = vec![];
    for f in unary_funcs() {
        pairs.push(Pair { a: format!("{} via {}", ls, f.src), b: format!("map({}, {})", ls, f.src), kind: "via-map" });
        pairs.push(Pair { a: format!("{} where {}", ls, f.src), b: format!("filter({}, {})", ls, f.src), kind: "where-filter" });
        pairs.push(Pair { a: format!("{} into {}", ls, f.src), b: format!("{}({})", f.src, ls), kind: "into-apply" });
        for x in l.iter().take(2) {
            pairs.push(Pair { a: format!("{} into {}", x.src(), f.src), b: format!("{}({})", f.src, x.src()), kind: "into-apply" });
        }
        // explicit element/index passing: the unrolled map
        if f.accepts[1] || f.accepts[2] {
            let unrolled: Vec<String> = l
                .iter()
                .enumerate()
                .map(|(i, x)| if f.accepts[2] { format!("{}({}, {})", f.src, x.src(), i) } else { format!("{}({})", f.src, x.src()) })
                .collect();
            pairs.push(Pair { a: format!("{} via {}", ls, f.src), b: format!("[{}]", unrolled.join(", ")), kind: "via-unrolled" });
            pairs.push(Pair { a: format!("map({}, {})", ls, f.src), b: format!("[{}]", unrolled.join(", ")), kind: "map-unrolled" });
        }
    }
    for g in fold_funcs() {
        for z in ["0", "[]"] {
            let mut acc = z.to_string();
            for (i, x) in l.iter().enumerate() {
                acc = if g.accepts[3] { format!("{}({}, {}, {})", g.src, acc, x.src(), i) } else { format!("{}({}, {})", g.src, acc, x.src()) };
            }
            if l.len() <= 6 {
                pairs.push(Pair { a: format!("reduce({}, {}, {})", ls, g.src, z), b: acc, kind: "reduce-fold" });
            }
        }
    }
    for p in &pairs {
        let oa = sess.run(&p.a);
        let ob = sess.run(&p.b);
        ctx.count(2);
        ctx.nontrivial(&p.a);
        ctx.outcome(&format!("{}-{}", p.kind, if oa.is_ok() { "ok" } else { "fail" }));
        if !same(&oa, &ob) {
            ctx.violation(Violation {
                kind: p.kind.to_string(),
                class: class_of(&p.a, &p.b),
                input: format!("{}  <=>  {}", p.a, p.b),
                expected: format!("{}", ob.cmp_key()),
                observed: format!("{} ({})", oa.cmp_key(), match &oa { Outcome::EvalError(m) => m.as_str(), _ => "" }),
                case: json!({"a": p.a, "b": p.b}),
            });
        }
    }
    // every / some vs the fold of the predicate's results, whenever the predicate succeeds everywhere
    for f in unary_funcs() {
        let mapped = sess.run(&format!("{} via {}", ls, f.src));
        ctx.count(3);
        if let Outcome::Ok(c) = &mapped {
            let inner = c.trim_start_matches('[').trim_end_matches(']');
            let items: Vec<&str> = if inner.is_empty() { vec![] } else { inner.split(", ").collect() };
            if items.iter().all(|t| *t == "true" || *t == "false") && !c.contains("[[") {
                let all = items.iter().all(|t| *t == "true");
                let any = items.iter().any(|t| *t == "true");
                let e = sess.run(&format!("every({}, {})", ls, f.src));
                let s = sess.run(&format!("some({}, {})", ls, f.src));
                ctx.outcome("every-some-checked");
                if e != Outcome::Ok(all.to_string()) {
                    ctx.violation(Violation {
                        kind: "every".into(),
                        class: f.src.clone(),
                        input: format!("every({}, {})", ls, f.src),
                        expected: all.to_string(),
                        observed: e.cmp_key(),
                        case: json!({"a": format!("every({}, {})", ls, f.src), "b": all.to_string()}),
                    });
                }
                if s != Outcome::Ok(any.to_string()) {
                    ctx.violation(Violation {
                        kind: "some".into(),
                        class: f.src.clone(),
                        input: format!("some({}, {})", ls, f.src),
                        expected: any.to_string(),
                        observed: s.cmp_key(),
                        case: json!({"a": format!("some({}, {})", ls, f.src), "b": any.to_string()}),
                    });
                }
            }
        }
    }
}

/// syntactic class of a pair: which built-in form is involved and whether the callback is a
/// named self-recursive function
fn class_of(a: &str, b: &str) -> String {
    let rec = ["fact", "count_down", "rec_pred", "rrec"];
    let builtin = ["map(", "filter(", "reduce(", "every(", "some("].iter().find(|p| a.starts_with(**p) || b.starts_with(**p));
    let is_rec = rec.iter().any(|r| a.contains(r) || b.contains(r));
    format!("{}{}", builtin.map(|s| s.trim_end_matches('(')).unwrap_or("operator"), if is_rec { ":self-recursive-callback" } else { "" })
}

pub fn run(ctx: &Ctx, replay: Option<&J>) -> i32 {
    if let Some(r) = replay {
        let mut sess = Session::new();
        sess.run(&prelude());
        if let Some(d) = r["case"]["defs"].as_str() {
            sess.run(d);
        }
        let a = r["case"]["a"].as_str().unwrap_or("");
        let b = r["case"]["b"].as_str().unwrap_or("");
        let (oa, ob) = (sess.run(a), sess.run(b));
        println!("{} -> {:?}\n{} -> {:?}", a, oa, b, ob);
        if !same(&oa, &ob) {
            println!("VIOLATION property=C13 replay=<replayed>");
            return 1;
        }
        return 0;
    }
    let ls = lists(!ctx.quick());
    par_for_ctx(ctx, ls.len(), |i| check_list(ctx, &ls[i]));
    // `print` as the callback (kept out of the big pool because it writes to stderr): a handful of lists
    {
        let mut sess = Session::new();
        for l in ["[]", "[1, 2]", "[\"a{}\", \"b{}\"]", "[\"x\"]", "[null, [1]]"] {
            for (a, b) in [
                (format!("{} via print", l), format!("map({}, print)", l)),
                (format!("{} where print", l), format!("filter({}, print)", l)),
                (format!("{} into print", l), format!("print({})", l)),
                (format!("every({}, print)", l), format!("every({} via (x => x), print)", l)),
            ] {
                let (oa, ob) = (sess.run(&a), sess.run(&b));
                ctx.count(2);
                ctx.nontrivial(&a);
                ctx.outcome("print-callback");
                if !same(&oa, &ob) {
                    ctx.violation(Violation { kind: "via-map".into(), class: "print-callback".into(), input: format!("{}  <=>  {}", a, b), expected: ob.cmp_key(), observed: oa.cmp_key(), case: json!({"a": a, "b": b}) });
                }
            }
        }
    }
    // the left operand written in different ways (a literal, a variable, the result of a built-in -
    // in particular `range` with integer and non-integer bounds): the operator form, the built-in form
    // and the form through a variable must agree whatever produced the list
    {
        let producers = [
            "range(3)", "range(3.5)", "range(7 / 2)", "range(0.5)", "range(0.000000001)", "range(2.999999999)", "range(0)", "range(1, 4)", "range(1.5, 4.5)", "range(2, 2.5)", "range(len([1, 2, 3]) / 2)",
            "[...[1, 2]]", "concat([1], [2])", "slice([1, 2, 3], 0, 2)", "[1, 2, 3] where (x => x > 1)", "reverse([1, 2])", "sort([2, 1])", "unique([1, 1, 2])", "keys({a: 1, b: 2})", "split(\"a,b\", \",\")",
            "[...\"ab\"]", "zip([1], [2])", "chunk([1, 2, 3], 2)", "flatten([[1], [2]])", "values({a: 1, b: 2})", "[1, 2] via (x => x + 1)", "map([1, 2], x => x)", "tail([0, 1, 2])", "(range(2.5))", "[0, 1, 2]",
        ];
        let funcs = ["inc", "two", "opt", "rest", "idx_even", "pos", "isnum", "tostr", "wrap", "((x, i) => x * 10 + i)", "sh_r1o2", "psh_r0o0z", "len", "max", "nothing_bound"];
        let mut rows: Vec<(String, String, Outcome, Outcome)> = vec![];
        let mut sess = Session::new();
        let _ = sess.run(&prelude());
        for (pi, p) in producers.iter().enumerate() {
            let _ = sess.run(&format!("held{} = {}", pi, p));
            for f in funcs {
                for (a, b) in [
                    (format!("{} via {}", p, f), format!("map({}, {})", p, f)),
                    (format!("{} via {}", p, f), format!("held{} via {}", pi, f)),
                    (format!("map({}, {})", p, f), format!("map(held{}, {})", pi, f)),
                    (format!("{} where {}", p, f), format!("filter({}, {})", p, f)),
                    (format!("{} where {}", p, f), format!("held{} where {}", pi, f)),
                    (format!("{} into {}", p, f), format!("{}({})", f, p)),
                    (format!("{} into {}", p, f), format!("held{} into {}", pi, f)),
                    (format!("every({}, {})", p, f), format!("every(held{}, {})", pi, f)),
                    (format!("reduce({}, (acc, x, i) => [acc, x, i], 0)", p), format!("reduce(held{}, (acc, x, i) => [acc, x, i], 0)", pi)),
                ] {
                    let (oa, ob) = (sess.run(&a), sess.run(&b));
                    rows.push((a, b, oa, ob));
                }
            }
        }
        for (a, b, oa, ob) in &rows {
            ctx.count(2);
            ctx.nontrivial(a);
            ctx.outcome(if oa.is_ok() { "producer-ok" } else { "producer-fail" });
            if !same(oa, ob) {
                ctx.violation(Violation {
                    kind: "producer-form".into(),
                    class: "left-operand-provenance".into(),
                    input: format!("{}  <=>  {}", a, b),
                    expected: ob.cmp_key(),
                    observed: oa.cmp_key(),
                    case: json!({"a": a, "b": b, "defs": producers.iter().enumerate().map(|(i, p)| format!("held{} = {}", i, p)).collect::<Vec<_>>().join("\n")}),
                });
            }
        }
    }
    // `x into f` against `f(x)` when the function recurses through the form itself, at depths up to
    // just below the call-depth limit: both forms must agree on the value or on failing
    {
        let defs = "ci = n => if n <= 0 then 0 else 1 + ((n - 1) into ci)\ncc = n => if n <= 0 then 0 else 1 + cc(n - 1)\nei = n => if n <= 0 then 0 else 1 + ((n - 1) into oi)\noi = n => if n <= 0 then 0 else 1 + ((n - 1) into ei)\nec = n => if n <= 0 then 0 else 1 + oc(n - 1)\noc = n => if n <= 0 then 0 else 1 + ec(n - 1)\nwi = n => if n <= 0 then 0 else 1 + do {\n  m = n - 1\n  return m into wi\n}\nwc = n => if n <= 0 then 0 else 1 + do {\n  m = n - 1\n  return wc(m)\n}";
        let depths: Vec<usize> = if ctx.quick() { vec![37, 100, 333, 499, 500, 501, 640, 700, 900, 990, 999] } else { (1..=1010).step_by(7).chain([499, 500, 501, 998, 999, 1000, 1001]).collect() };
        let results: Vec<(usize, Vec<(String, String, Outcome, Outcome)>)> = on_big_stack(|| {
            let mut out = vec![];
            for &k in &depths {
                let mut sess = Session::new();
                let _ = sess.run(defs);
                let mut row = vec![];
                for (a, b) in [("ci", "cc"), ("ei", "ec"), ("wi", "wc")] {
                    let pa = format!("{}({})", a, k);
                    let pb = format!("{}({})", b, k);
                    let pa2 = format!("{} into {}", k, a);
                    let oa = sess.run(&pa);
                    let ob = sess.run(&pb);
                    let oa2 = sess.run(&pa2);
                    row.push((pa, pb.clone(), oa, ob.clone()));
                    row.push((pa2, pb, oa2, ob));
                }
                out.push((k, row));
            }
            out
        });
        for (_, row) in &results {
            for (pa, pb, oa, ob) in row {
                ctx.count(2);
                ctx.nontrivial(pa);
                ctx.outcome(if oa.is_ok() { "deep-into-ok" } else { "deep-into-fail" });
                if !same(oa, ob) {
                    ctx.violation(Violation {
                        kind: "into-apply".into(),
                        class: "deep-recursion".into(),
                        input: format!("{}  <=>  {}", pa, pb),
                        expected: ob.cmp_key(),
                        observed: oa.cmp_key(),
                        case: json!({"a": pa, "b": pb, "defs": defs}),
                    });
                }
            }
        }
    }
    ctx.set("lists", json!(ls.len()));
    ctx.set("functions", json!(unary_funcs().iter().map(|f| f.src.clone()).collect::<Vec<_>>()));
    ctx.sample(json!({"a": "[3, 1] via fact", "b": "map([3, 1], fact)"}));
    ctx.sample(json!({"a": "[0, 1, 3] where idx_even", "b": "filter([0, 1, 3], idx_even)"}));
    ctx.sample(json!({"a": "reduce([1, 3], r3, 0)", "b": "r3(r3(0, 1, 0), 3, 1)"}));
    for k in ["via-map", "where-filter", "into-apply", "reduce-fold", "via-unrolled"] {
        ctx.require_outcome(&format!("{}-ok", k), 50);
        ctx.require_outcome(&format!("{}-fail", k), 50);
    }
    ctx.require_outcome("every-some-checked", 50);
    finish(
        ctx,
        "exploration",
        "every list (all words of length <= 3/4 over a 6-value alphabet plus periodic extensions to 10 and a size ladder of 257 / 1025 (thorough 100..4097) elements) x every function of a 38-entry pool plus every parameter shape (0..3 required, 0..3 optional, rest; as a function returning its parameters and as a predicate on its second parameter) (arity 1, 2, optional, rest, closures, curried, self-recursive, mutually recursive, built-ins of each arity class, non-functions) x the equivalent program pairs via/map, where/filter, into/application, unrolled element+index calls, reduce/unrolled fold, every/some vs fold of predicate results; both forms evaluated in the same session; distinct = distinct left-hand programs",
        true,
        None,
    )
}
