//! Shared finite alphabets and the harness-side reference value type.
#![allow(dead_code)]

use crate::common::num_repr;
use std::cmp::Ordering;

/// Reference data value (never a function).
#[derive(Clone, Debug, PartialEq)]
pub enum RV {
    Num(f64),
    Str(String),
    Bool(bool),
    Null,
    List(Vec<RV>),
    Rec(Vec<(String, RV)>),
}

pub fn quote_str(s: &str) -> Option<String> {
    if !s.contains('"') {
        Some(format!("\"{}\"", s))
    } else if !s.contains('\'') {
        Some(format!("'{}'", s))
    } else {
        None
    }
}

pub fn is_ident(s: &str) -> bool {
    let mut c = s.chars();
    match c.next() {
        Some(f) if f.is_ascii_alphabetic() || f == '_' => {}
        _ => return false,
    }
    if !c.all(|x| x.is_ascii_alphanumeric() || x == '_') {
        return false;
    }
    ![
        "if", "then", "else", "true", "false", "null", "and", "or", "not", "do", "return", "output",
    ]
    .contains(&s)
}

impl RV {
    pub fn num(n: f64) -> RV {
        RV::Num(n)
    }
    pub fn s(x: &str) -> RV {
        RV::Str(x.to_string())
    }
    pub fn list(v: Vec<RV>) -> RV {
        RV::List(v)
    }

    /// Blots source text that evaluates to this value (harness-side printer).
    pub fn src(&self) -> String {
        match self {
            RV::Num(n) => num_src(*n),
            RV::Str(s) => quote_str(s).expect("string with both quote kinds has no literal"),
            RV::Bool(b) => b.to_string(),
            RV::Null => "null".into(),
            RV::List(v) => format!("[{}]", v.iter().map(|x| x.src()).collect::<Vec<_>>().join(", ")),
            RV::Rec(es) => format!(
                "{{{}}}",
                es.iter()
                    .map(|(k, v)| {
                        let key = if is_ident(k) { k.clone() } else { quote_str(k).expect("key") };
                        format!("{}: {}", key, v.src())
                    })
                    .collect::<Vec<_>>()
                    .join(", ")
            ),
        }
    }

    /// Same textual form as `common::canon_value`.
    pub fn canon(&self) -> String {
        match self {
            RV::Num(n) => num_repr(*n),
            RV::Str(s) => format!("{:?}", s),
            RV::Bool(b) => b.to_string(),
            RV::Null => "null".into(),
            RV::List(v) => format!("[{}]", v.iter().map(|x| x.canon()).collect::<Vec<_>>().join(", ")),
            RV::Rec(es) => format!(
                "{{{}}}",
                es.iter().map(|(k, v)| format!("{:?}: {}", k, v.canon())).collect::<Vec<_>>().join(", ")
            ),
        }
    }

    pub fn type_name(&self) -> &'static str {
        match self {
            RV::Num(_) => "number",
            RV::Str(_) => "string",
            RV::Bool(_) => "boolean",
            RV::Null => "null",
            RV::List(_) => "list",
            RV::Rec(_) => "record",
        }
    }

    pub fn is_list(&self) -> bool {
        matches!(self, RV::List(_))
    }

    pub fn contains_nan(&self) -> bool {
        match self {
            RV::Num(n) => n.is_nan(),
            RV::List(v) => v.iter().any(|x| x.contains_nan()),
            RV::Rec(es) => es.iter().any(|(_, v)| v.contains_nan()),
            _ => false,
        }
    }

    /// Reference deep equality: IEEE on numbers, code points on strings, key order ignored.
    pub fn equals(&self, o: &RV) -> bool {
        match (self, o) {
            (RV::Num(a), RV::Num(b)) => a == b,
            (RV::Str(a), RV::Str(b)) => a == b,
            (RV::Bool(a), RV::Bool(b)) => a == b,
            (RV::Null, RV::Null) => true,
            (RV::List(a), RV::List(b)) => a.len() == b.len() && a.iter().zip(b).all(|(x, y)| x.equals(y)),
            (RV::Rec(a), RV::Rec(b)) => {
                a.len() == b.len()
                    && a.iter().all(|(k, v)| b.iter().find(|(k2, _)| k2 == k).map(|(_, v2)| v.equals(v2)).unwrap_or(false))
            }
            _ => false,
        }
    }

    /// Reference ordering: numbers, booleans (false < true), strings by code point, lists
    /// lexicographically with a proper prefix first; everything else unordered.
    pub fn compare(&self, o: &RV) -> Option<Ordering> {
        match (self, o) {
            (RV::Num(a), RV::Num(b)) => a.partial_cmp(b),
            (RV::Bool(a), RV::Bool(b)) => Some(a.cmp(b)),
            (RV::Str(a), RV::Str(b)) => Some(a.chars().cmp(b.chars())),
            (RV::List(a), RV::List(b)) => {
                for (x, y) in a.iter().zip(b.iter()) {
                    match x.compare(y) {
                        Some(Ordering::Equal) => continue,
                        other => return other,
                    }
                }
                Some(a.len().cmp(&b.len()))
            }
            _ => None,
        }
    }
}

/// Source text for a number, including the non-finite ones and negative zero.
pub fn num_src(n: f64) -> String {
    if n.is_nan() {
        "(0/0)".into()
    } else if n == f64::INFINITY {
        "inf".into()
    } else if n == f64::NEG_INFINITY {
        "(-inf)".into()
    } else if n == 0.0 && n.is_sign_negative() {
        "(-0)".into()
    } else if n < 0.0 {
        format!("(-{})", pos_num_src(-n))
    } else {
        pos_num_src(n)
    }
}

fn pos_num_src(n: f64) -> String {
    // Rust's shortest round-trip text; `{:?}` may use exponent form (1e300), which the literal
    // grammar accepts. Plain integers are printed without ".0".
    let s = format!("{:?}", n);
    if let Some(stripped) = s.strip_suffix(".0") { stripped.to_string() } else { s }
}

pub const NAN: f64 = f64::NAN;

/// Boundary numbers used as elements.
pub fn number_pool(thorough: bool) -> Vec<f64> {
    let mut v = vec![f64::NAN, f64::INFINITY, f64::NEG_INFINITY, 0.0, -0.0, 1.0, -1.0, 2.0, 0.5, -2.5, 3.0];
    if thorough {
        v.extend([1e308, 5e-324, 9007199254740992.0, 255.0, 1e-7, 7.0]);
    }
    v
}

/// All words of length 0..=max_len over `alphabet`.
pub fn words<T: Clone>(alphabet: &[T], max_len: usize) -> Vec<Vec<T>> {
    let mut out: Vec<Vec<T>> = vec![vec![]];
    let mut layer: Vec<Vec<T>> = vec![vec![]];
    for _ in 0..max_len {
        let mut next = vec![];
        for w in &layer {
            for a in alphabet {
                let mut w2 = w.clone();
                w2.push(a.clone());
                next.push(w2);
            }
        }
        out.extend(next.iter().cloned());
        layer = next;
    }
    out
}

/// Periodic extension of `word` to length `n`.
pub fn extend_periodic<T: Clone>(word: &[T], n: usize) -> Vec<T> {
    (0..n).map(|i| word[i % word.len()].clone()).collect()
}

/// The 24-code-point string alphabet Σ.
pub fn sigma() -> Vec<char> {
    vec![
        'a', 'B', ' ', '"', '\'', '\\', '/', '\n', '\t', '\r', '\u{0}', '\u{1f}', '\u{7f}', '\u{e9}', '\u{301}',
        '\u{2028}', '\u{fffd}', '\u{ffff}', '\u{1f600}', '\u{10ffff}', '{', '}', '$', '#',
    ]
}

/// All strings of length <= k over Σ.
pub fn sigma_strings(k: usize) -> Vec<String> {
    words(&sigma(), k).into_iter().map(|w| w.into_iter().collect()).collect()
}

// ---------------------------------------------------------------------------------------------
// double grid N

pub fn mantissa_set(thorough: bool) -> Vec<u64> {
    let full = (1u64 << 52) - 1;
    let mut m = vec![0, 1, 2, 3, full, full - 1, 1u64 << 51, (1u64 << 51) + 1, (1u64 << 51) - 1, 0x5555555555555, 0xAAAAAAAAAAAAA];
    let step = if thorough { 1 } else { 11 };
    let mut k = 2;
    while k < 52 {
        m.push(1u64 << k);
        k += step;
    }
    if thorough {
        for k in (3..52).step_by(2) {
            m.push((1u64 << k) - 1);
            m.push(full ^ (1u64 << k));
        }
    }
    m.sort();
    m.dedup();
    m
}

fn ulp_neighbours(x: f64, k: i64) -> Vec<f64> {
    let b = x.to_bits() as i64;
    (-k..=k).map(|d| f64::from_bits((b + d) as u64)).filter(|v| v.is_finite()).collect()
}

/// The finite double grid N (positive and negative).
pub fn double_grid(thorough: bool) -> Vec<f64> {
    let mut v: Vec<f64> = vec![];
    let mant = mantissa_set(thorough);
    let exp_step = if thorough { 1 } else { 7 };
    let mut e = 0u64;
    while e < 2047 {
        for m in &mant {
            v.push(f64::from_bits((e << 52) | m));
        }
        e += exp_step;
    }
    for e in [0u64, 1, 2, 1022, 1023, 1024, 1074, 1075, 1076, 2045, 2046] {
        for m in &mant {
            v.push(f64::from_bits((e << 52) | m));
        }
    }
    // nearest doubles to 10^k and neighbours
    for k in -323..=308 {
        let x: f64 = format!("1e{}", k).parse().unwrap();
        v.extend(ulp_neighbours(x, 3));
    }
    // 2^k +- {0,1,2}
    for k in 0..=64 {
        let p = 2f64.powi(k);
        for d in [-2.0, -1.0, 0.0, 1.0, 2.0] {
            v.push(p + d);
        }
    }
    for x in [1e15, 1e21, 1e-4, 1e-7, 9007199254740992.0, 1e16, 1e22, 1e23, 0.1, 0.3, 1.0 / 3.0] {
        v.extend(ulp_neighbours(x, 3));
    }
    // 15-digit carry cases
    for k in -20..=20 {
        for d in 0..10 {
            let s = format!("9.9999999999999{}e{}", d, k);
            let x: f64 = s.parse().unwrap();
            v.extend(ulp_neighbours(x, 2));
            let s2 = format!("9.99999999999999{}e{}", d, k);
            let x2: f64 = s2.parse().unwrap();
            v.extend(ulp_neighbours(x2, 2));
        }
    }
    // classical hard cases
    for s in [
        "5e-324", "2.2250738585072014e-308", "2.2250738585072011e-308", "1.7976931348623157e308", "8.41e21", "9.5e-324",
        "123456789012345680000", "0.000001", "1.0000000000000002", "4.35", "0.1", "0.2", "0.30000000000000004",
        "2.5e-7", "8.5", "17.5", "1.005", "1234567.891", "999999.9999999987", "99999.99999999999", "0.00009999999999999999",
        "999999999999999.9", "4503599627370495.5", "4503599627370496.5", "9007199254740993", "6.02214076e23", "1.616255e-35",
    ] {
        let x: f64 = s.parse().unwrap();
        v.extend(ulp_neighbours(x, 1));
    }
    let mut out: Vec<f64> = vec![];
    for x in v {
        if x.is_finite() {
            out.push(x);
            out.push(-x);
        }
    }
    out.sort_by(|a, b| a.to_bits().cmp(&b.to_bits()));
    out.dedup_by(|a, b| a.to_bits() == b.to_bits());
    out
}
