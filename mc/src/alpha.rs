//! shared alphabets
