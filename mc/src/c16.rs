//! C16 — numbers keep their exact value through every textual path; literals are correctly rounded.

use crate::alpha::{double_grid, words};
use crate::common::*;
use crate::oracle;
use crate::parse::parse_one;
use blots_core::ast::{Expr, Spanned, UnaryOp};
use blots_core::environment::Environment;
use blots_core::formatter::format_expr;
use blots_core::functions::{BuiltInFunction, FunctionDef};
use blots_core::heap::Heap;
use blots_core::values::{SerializableValue, Value};
use serde_json::{Value as J, json};
use std::cell::RefCell;
use std::rc::Rc;

fn call_builtin(f: BuiltInFunction, heap: &Rc<RefCell<Heap>>, args: Vec<Value>) -> Result<Value, String> {
    FunctionDef::BuiltIn(f)
        .call(Value::BuiltIn(f), args, Rc::clone(heap), Rc::new(Environment::new()), 0, "")
        .map_err(|e| e.message)
}

/// to_string -> to_number
fn path_string(x: f64) -> Result<f64, String> {
    let heap = Rc::new(RefCell::new(Heap::new()));
    let s = call_builtin(BuiltInFunction::ToString, &heap, vec![Value::Number(x)])?;
    let n = call_builtin(BuiltInFunction::ToNumber, &heap, vec![s])?;
    n.as_number().map_err(|e| e.to_string())
}

/// JSON output -> JSON input
fn path_json(x: f64) -> Result<f64, String> {
    let text = serde_json::to_string(&SerializableValue::Number(x).to_json()).map_err(|e| e.to_string())?;
    let j: J = serde_json::from_str(&text).map_err(|e| format!("{} for {}", e, text))?;
    match SerializableValue::from_json(&j) {
        SerializableValue::Number(y) => Ok(y),
        other => Err(format!("not a number: {:?} (text {})", other, text)),
    }
}

/// captured in a closure -> emitted source -> reloaded -> returned
fn path_closure(x: f64) -> Result<f64, String> {
    let mut s = Session::new();
    s.env.insert("c".to_string(), Value::Number(x));
    if !s.run("f = () => c").is_ok() {
        return Err("cannot define closure".into());
    }
    let v = s.env.get("f").ok_or("f unbound")?;
    let sv = SerializableValue::from_value(&v, &s.heap.borrow()).map_err(|e| e.to_string())?;
    let text = serde_json::to_string(&sv.to_json()).map_err(|e| e.to_string())?;
    let j: J = serde_json::from_str(&text).map_err(|e| e.to_string())?;
    let mut re = Session::with_inputs(&[("f", j)]);
    match re.run("inputs.f()") {
        Outcome::Ok(c) => crate::c15::parse_num_list(&format!("[{}]", c)).and_then(|v| v.first().copied()).ok_or(format!("unexpected result {}", c)),
        other => Err(format!("{:?} (emitted {})", other, text)),
    }
}


/// Bodies in which the captured number sits next to an operator that binds tighter or differently
/// than a sign (postfix, power, unary, division, index, nesting): the reloaded closure must answer
/// exactly as the original does.
const POSITION_BODIES: &[&str] = &[
    "c!", "1 / c!", "c ^ 2", "2 ^ c", "c ^ c", "-c", "1 / -c", "1 / c", "1 - c", "c - 1", "c * c", "[c][0]", "1 / [c, 2][0]", "{a: c}.a", "c % 3", "not (c > 1)",
    "if c >= 0 then 1 / c else c", "to_string(c)", "(c)!", "-c ^ 2", "[c!, c ^ 2, -c, 1 / c]", "x => x + c", "abs(c)", "c == 0 - c",
];

fn path_closure_positions(x: f64) -> Vec<(String, Outcome, Result<Outcome, String>)> {
    let mut out = vec![];
    for body in POSITION_BODIES {
        let mut s = Session::new();
        s.env.insert("c".to_string(), Value::Number(x));
        if !s.run(&format!("f = () => {}", body)).is_ok() {
            continue;
        }
        let call = if body.starts_with("x =>") { "f()(1)" } else { "f()" };
        let orig = s.run(call);
        let reloaded = (|| -> Result<Outcome, String> {
            let v = s.env.get("f").ok_or("f unbound")?;
            let sv = SerializableValue::from_value(&v, &s.heap.borrow()).map_err(|e| e.to_string())?;
            let text = serde_json::to_string(&sv.to_json()).map_err(|e| e.to_string())?;
            let j: J = serde_json::from_str(&text).map_err(|e| e.to_string())?;
            let mut re = Session::with_inputs(&[("f", j)]);
            Ok(re.run(&call.replacen("f", "inputs.f", 1)))
        })();
        out.push((body.to_string(), orig, reloaded));
    }
    out
}

/// literal in a program -> formatter -> parser (x >= 0)
fn path_formatter(x: f64) -> Result<f64, String> {
    let e = Spanned::dummy(Expr::Number(x));
    let text = format_expr(&e, None);
    match parse_one(&text).map(|e| e.node) {
        Ok(Expr::Number(y)) => Ok(y),
        Ok(Expr::UnaryOp { op: UnaryOp::Negate, expr }) => match expr.node {
            Expr::Number(y) => Ok(-y),
            _ => Err(format!("formatted as {}", text)),
        },
        other => Err(format!("formatted as {:?} -> {:?}", text, other.map(|_| "non-number"))),
    }
}

fn same(a: f64, b: f64) -> bool {
    a.to_bits() == b.to_bits()
}

/// Every string over the literal alphabet that the documented literal grammar accepts.
fn literal_candidates(max_len: usize) -> Vec<String> {
    let alphabet = ['0', '1', '5', '9', '.', '_', 'e', 'E', '+', '-'];
    let re = regex::Regex::new(r"^(?:[+-]?\d+(?:_+\d+)*(?:\.\d+)?(?:[eE][+-]?\d+)?|-?\.\d+(?:[eE][+-]?\d+)?)$").unwrap();
    words(&alphabet, max_len)
        .into_iter()
        .map(|w| w.into_iter().collect::<String>())
        .filter(|s| re.is_match(s))
        .collect()
}

fn radix_literals() -> Vec<String> {
    let mut v = vec![];
    let hexd = ['0', '1', '9', 'a', 'F'];
    for w in words(&hexd, 4).into_iter().filter(|w| !w.is_empty()) {
        let s: String = w.iter().collect();
        v.push(format!("0x{}", s));
        if w.len() >= 2 {
            v.push(format!("0x{}_{}", &s[..1], &s[1..]));
        }
    }
    for w in words(&['0', '1'], 6).into_iter().filter(|w| !w.is_empty()) {
        let s: String = w.iter().collect();
        v.push(format!("0b{}", s));
        if w.len() >= 3 {
            v.push(format!("0b{}__{}", &s[..2], &s[2..]));
        }
    }
    // wide literals: every width 54..=66 bits, values around each rounding boundary
    // (multiples of half an ulp, +-1, +- a quarter ulp) and bit patterns, in both radices
    for w in 54u32..=66 {
        let top: u128 = 1u128 << (w - 1);
        let ulp: u128 = 1u128 << (w - 53);
        let half = ulp / 2;
        let mut vals: Vec<u128> = vec![];
        for j in 0u128..9 {
            for d in [-1i128, 0, 1, -((half / 2) as i128), (half / 2) as i128] {
                let x = (top + j * half) as i128 + d;
                if x > 0 {
                    vals.push(x as u128);
                }
            }
        }
        let mask: u128 = (1u128 << w) - 1;
        vals.push(mask);
        vals.push(top | (0x5555_5555_5555_5555_5555u128 & (mask >> 1)));
        vals.push(top | (0xAAAA_AAAA_AAAA_AAAA_AAAAu128 & (mask >> 1)));
        vals.push(top + 24);
        vals.push(top + 3);
        vals.sort();
        vals.dedup();
        for x in vals {
            v.push(format!("0x{:x}", x));
            v.push(format!("0b{:b}", x));
        }
    }
    for s in [
        "0x1fffffffffffff", "0x20000000000000", "0x20000000000001", "0x20000000000003", "0x7fffffffffffffff", "0x7ffffffffffffc00", "0x8000000000000000",
        "0xffffffffffffffff", "0x10000000000000000", "0x7fff_ffff_ffff_fbff", "0x3ff_ffff_ffff_ffff", "-0x10", "+0x10", "-0b101", "+0b1_0",
        "0b11111111111111111111111111111111111111111111111111111", "0b100000000000000000000000000000000000000000000000000001",
        "0b111111111111111111111111111111111111111111111111111111111111111", "0b1000000000000000000000000000000000000000000000000000000000000000",
    ] {
        v.push(s.to_string());
    }
    v
}

fn long_decimal_literals() -> Vec<String> {
    [
        "9007199254740993", "9007199254740992", "9007199254740991", "9223372036854775807", "9223372036854775808", "18446744073709551616",
        "123456789012345678901234567890", "0.1000000000000000055511151231257827021181583404541015625", "2.2250738585072011e-308",
        "2.2250738585072012e-308", "4.9406564584124654e-324", "2.4703282292062327e-324", "2.4703282292062328e-324", "1.7976931348623157e308",
        "1.7976931348623158e308", "1.7976931348623159e308", "1e309", "1e-400", "1_000_000", "1__0", "1_0.5", ".5", ".5e-1", "5e0", "5E+2", "0.30000000000000004",
        "8.41e21", "1.00000000000000011102230246251565404236316680908203125", "1.00000000000000011102230246251565404236316680908203124",
        "1.00000000000000011102230246251565404236316680908203126", "100000000000000000000000", "6.02214076e23", "0.000001", "1e23", "8.5e-5", "+5", "+5.5e+1", "-.5",
    ]
    .iter()
    .map(|s| s.to_string())
    .collect()
}

/// Parse a literal as a program and return the number it denotes.
fn literal_bits(lit: &str) -> Result<f64, String> {
    match eval_fresh(lit) {
        Outcome::Ok(c) => crate::c15::parse_num_list(&format!("[{}]", c)).and_then(|v| v.first().copied()).ok_or(format!("not a number: {}", c)),
        other => Err(format!("{:?}", other)),
    }
}

pub fn run(ctx: &Ctx, replay: Option<&J>) -> i32 {
    if let Some(r) = replay {
        let c = &r["case"];
        if let Some(l) = c["literal"].as_str() {
            let got = literal_bits(l);
            let req = format!("LIT {} {}", got.as_ref().map(|g| format!("{:016x}", g.to_bits())).unwrap_or("ERR".into()), l);
            let ans = oracle::ask(&[req]).unwrap_or_else(|e| vec![e]);
            println!("literal {:?} -> {:?}; oracle: {}", l, got, ans[0]);
            return if ans[0] == "ok" { 0 } else { 1 };
        }
        let x = f64::from_bits(u64::from_str_radix(c["bits"].as_str().unwrap_or("0"), 16).unwrap_or(0));
        println!("x = {:?} ({:016x})", x, x.to_bits());
        println!("  to_string/to_number: {:?}\n  json: {:?}\n  closure: {:?}\n  formatter: {:?}", path_string(x), path_json(x), path_closure(x), path_formatter(x.abs()));
        if let Some(b) = c["body"].as_str() {
            for (body, orig, reloaded) in path_closure_positions(x) {
                if body == b {
                    println!("  f = () => {}: original {:?}, reloaded {:?}", body, orig, reloaded);
                }
            }
        }
        return 1;
    }
    let thorough = !ctx.quick();
    let grid = double_grid(thorough);
    ctx.set("grid_size", json!(grid.len()));
    type PathFn = fn(f64) -> Result<f64, String>;
    let paths: [(&str, PathFn); 4] = [("to_string-to_number", path_string), ("json-output-input", path_json), ("closure-emit-reload", path_closure), ("formatter-parser", path_formatter)];
    par_for_ctx(ctx, grid.len(), |i| {
        let x = grid[i];
        ctx.nontrivial(&format!("{:016x}", x.to_bits()));
        for (name, f) in &paths {
            // the closure path is the slowest: thin it in the quick tier
            if *name == "closure-emit-reload" && !thorough && i % 4 != 0 {
                continue;
            }
            ctx.count(1);
            let r = catch(|| f(x));
            let ok = matches!(&r, Ok(Ok(y)) if same(*y, x));
            ctx.outcome(name);
            if !ok {
                ctx.violation(Violation {
                    kind: format!("path-{}", name),
                    class: "grid".into(),
                    input: format!("{:?} ({:016x})", x, x.to_bits()),
                    expected: format!("{:?} ({:016x})", x, x.to_bits()),
                    observed: match r {
                        Ok(Ok(y)) => format!("{:?} ({:016x})", y, y.to_bits()),
                        Ok(Err(e)) => e,
                        Err(p) => p,
                    },
                    case: json!({"bits": format!("{:016x}", x.to_bits())}),
                });
            }
        }
    });
    // ---- captured numbers in operator positions
    {
        let step = if thorough { 2 } else { 16 };
        let mut sub: Vec<f64> = grid.iter().cloned().step_by(step).collect();
        sub.extend([0.0, -0.0, 1.0, -1.0, 2.0, -2.0, 3.0, -3.0, 0.5, -0.5, 170.0, 171.0, 1e21, -1e21, 5e-324, -5e-324, f64::INFINITY, f64::NEG_INFINITY]);
        par_for_ctx(ctx, sub.len(), |i| {
            let x = sub[i];
            let rows = catch(|| path_closure_positions(x)).unwrap_or_default();
            if rows.is_empty() {
                ctx.machinery_error(format!("closure positions produced nothing for {:?}", x));
            }
            for (body, orig, reloaded) in rows {
                ctx.count(1);
                ctx.outcome("closure-position");
                let same_outcome = match (&orig, &reloaded) {
                    (Outcome::Ok(a), Ok(Outcome::Ok(b))) => a == b,
                    (Outcome::Ok(_), _) => false,
                    (_, Ok(Outcome::Ok(_))) => false,
                    (_, Ok(_)) => true,
                    (_, Err(_)) => false,
                };
                if !same_outcome {
                    ctx.violation(Violation {
                        kind: "path-closure-position".into(),
                        class: "grid".into(),
                        input: format!("c = {:?} ({:016x}); f = () => {}", x, x.to_bits(), body),
                        expected: format!("{:?}", orig),
                        observed: format!("{:?}", reloaded),
                        case: json!({"bits": format!("{:016x}", x.to_bits()), "body": body}),
                    });
                }
            }
        });
    }
    // ---- literals
    let mut lits = literal_candidates(if thorough { 7 } else { 5 });
    lits.extend(radix_literals());
    lits.extend(long_decimal_literals());
    ctx.set("literals", json!(lits.len()));
    let values: Vec<Result<f64, String>> = par_map(&lits, |l| literal_bits(l));
    let requests: Vec<String> = lits
        .iter()
        .zip(values.iter())
        .map(|(l, v)| format!("LIT {} {}", v.as_ref().map(|g| format!("{:016x}", g.to_bits())).unwrap_or("ERR".into()), l))
        .collect();
    match oracle::ask(&requests) {
        Err(e) => ctx.machinery_error(format!("oracle failed: {}", e)),
        Ok(answers) => {
            for ((l, v), a) in lits.iter().zip(values.iter()).zip(answers.iter()) {
                ctx.count(1);
                ctx.nontrivial(&format!("lit:{}", l));
                ctx.outcome(if l.contains("0x") || l.contains("0b") { "radix-literal" } else { "decimal-literal" });
                if a != "ok" {
                    ctx.violation(Violation {
                        kind: "literal-value".into(),
                        class: if l.contains("0x") || l.contains("0b") { "radix".into() } else { "decimal".into() },
                        input: l.clone(),
                        expected: "the nearest double to the literal's exact value".into(),
                        observed: format!("{:?} -> {}", v, a),
                        case: json!({"literal": l}),
                    });
                }
            }
        }
    }
    for i in [3usize, grid.len() / 2, grid.len() - 5] {
        ctx.sample(json!({"x": format!("{:?}", grid[i]), "bits": format!("{:016x}", grid[i].to_bits())}));
    }
    ctx.sample(json!({"literals": [lits[lits.len() / 3], lits[lits.len() / 2], "0x7fff_ffff_ffff_fbff", "1_0.5e-1"]}));
    for (n, _) in &paths {
        ctx.require_outcome(n, 1000);
    }
    ctx.require_outcome("decimal-literal", 1000);
    ctx.require_outcome("radix-literal", 500);
    ctx.set("trusted_base", json!(["/verif/lib/oracle.py (exact rational value of a literal; Python int/int division is correctly rounded)"]));
    finish(
        ctx,
        "exploration",
        "every finite double of the grid N through to_string->to_number, JSON output->input, closure capture->emitted source->reload->call, and formatter->parser, compared by bit pattern; a thinned grid plus signed zeros / small integers / 170, 171 / +-1e21 / subnormals / infinities captured by closures whose 24 bodies put the number directly under postfix, power, unary, division, index and nested-function positions, called before and after emit -> reload; every string of length <= 5/7 over {0 1 5 9 . _ e E + -} that the documented literal grammar accepts, every 0x/0b literal with <= 4/6 digits and underscores, boundary long literals (2^53, 2^63, 2^64 neighbourhoods, subnormal and overflow thresholds, half-way cases), each compared with the nearest double of its exact rational value; distinct = distinct bit patterns / literals",
        true,
        None,
    )
}
