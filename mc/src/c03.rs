//! C03 — bindings are immutable and scoped.
//!
//! Explicit-state search: a state is a session (heap + root environment + outputs) reached by a
//! history of statements from a finite alphabet; every transition feeds one statement through the
//! real `get_pairs` -> `evaluate_pairs` path (as the REPL and `evaluate_source` do). States are
//! canonicalised by their sorted bindings and outputs and deduplicated; the BFS runs to its
//! fixpoint. On every transition the invariants are evaluated and the observed outcome is
//! compared with a small reference model of the alphabet.

use crate::common::*;
use serde_json::{Value as J, json};
use std::collections::{BTreeMap, BTreeSet, HashMap, VecDeque};

/// Reference-model value.
#[derive(Clone, Debug, PartialEq)]
enum MV {
    Int(i64),
    /// `f`: closure that captured `a` (Some) or found it unbound at definition (None)
    FunF(Option<i64>),
    List(Vec<i64>),
    /// some other value (not compared)
    Opaque,
}

#[derive(Clone, Debug, Default, PartialEq)]
struct Model {
    vars: BTreeMap<String, MV>,
    outs: Vec<(String, MV)>,
}

enum Exp {
    /// statement succeeds with this value (None = do not check the value)
    Ok(Option<MV>),
    Fail,
    /// the statement does not fix whether this succeeds: only the invariants are checked
    Any,
}

struct Stmt {
    src: &'static str,
    /// names the statement may bind at top level (assignment targets outside do-blocks/lambdas)
    targets: &'static [&'static str],
    /// names that occur only as do-block locals or parameters: must never become visible
    inner: &'static [&'static str],
    /// reference model of the statement
    model: fn(&mut Model) -> Exp,
}

fn bind(m: &mut Model, name: &str, v: MV) -> bool {
    if m.vars.contains_key(name) {
        return false;
    }
    m.vars.insert(name.to_string(), v);
    true
}

fn int(m: &Model, n: &str) -> Option<i64> {
    match m.vars.get(n) {
        Some(MV::Int(i)) => Some(*i),
        _ => None,
    }
}

/// `n` is bound to something the model does not compute with
fn non_int(m: &Model, n: &str) -> bool {
    matches!(m.vars.get(n), Some(MV::Opaque) | Some(MV::List(_)) | Some(MV::FunF(_)))
}

fn alphabet() -> Vec<Stmt> {
    fn reserved_fail(_m: &mut Model) -> Exp {
        Exp::Fail
    }
    vec![
        Stmt {
            src: "a = 1",
            targets: &["a"],
            inner: &[],
            model: |m| if bind(m, "a", MV::Int(1)) { Exp::Ok(Some(MV::Int(1))) } else { Exp::Fail },
        },
        Stmt {
            src: "a = 2",
            targets: &["a"],
            inner: &[],
            model: |m| if bind(m, "a", MV::Int(2)) { Exp::Ok(Some(MV::Int(2))) } else { Exp::Fail },
        },
        Stmt {
            src: "b = 2",
            targets: &["b"],
            inner: &[],
            model: |m| if bind(m, "b", MV::Int(2)) { Exp::Ok(Some(MV::Int(2))) } else { Exp::Fail },
        },
        Stmt {
            src: "b = a",
            targets: &["b"],
            inner: &[],
            model: |m| {
                if m.vars.contains_key("b") {
                    return Exp::Fail;
                }
                match m.vars.get("a").cloned() {
                    Some(v) => {
                        bind(m, "b", v.clone());
                        Exp::Ok(Some(v))
                    }
                    None => Exp::Fail,
                }
            },
        },
        Stmt {
            src: "output a",
            targets: &[],
            inner: &[],
            model: |m| match m.vars.get("a").cloned() {
                Some(v) => {
                    set_out(m, "a", v.clone());
                    Exp::Ok(Some(v))
                }
                None => Exp::Fail,
            },
        },
        Stmt {
            src: "output b = 3",
            targets: &["b"],
            inner: &[],
            model: |m| {
                if bind(m, "b", MV::Int(3)) {
                    set_out(m, "b", MV::Int(3));
                    Exp::Ok(Some(MV::Int(3)))
                } else {
                    Exp::Fail
                }
            },
        },
        Stmt {
            src: "b = (a = 5)",
            targets: &["a", "b"],
            inner: &[],
            model: |m| {
                if m.vars.contains_key("b") {
                    return Exp::Fail;
                }
                if !bind(m, "a", MV::Int(5)) {
                    return Exp::Fail;
                }
                bind(m, "b", MV::Int(5));
                Exp::Ok(Some(MV::Int(5)))
            },
        },
        Stmt {
            src: "[a = 1]",
            targets: &["a"],
            inner: &[],
            model: |m| if bind(m, "a", MV::Int(1)) { Exp::Ok(Some(MV::List(vec![1]))) } else { Exp::Fail },
        },
        Stmt {
            src: "do { a = 5; return a }",
            targets: &[],
            inner: &[],
            model: |_m| Exp::Ok(Some(MV::Int(5))),
        },
        Stmt {
            src: "do {\n  a = 5\n  b = do { a = 6; return a }\n  return a + b\n}",
            targets: &[],
            inner: &[],
            model: |_m| Exp::Ok(Some(MV::Int(11))),
        },
        Stmt {
            src: "do { t = a; a = 7; return t + a }",
            targets: &[],
            inner: &["t"],
            model: |m| match int(m, "a") {
                Some(a) => Exp::Ok(Some(MV::Int(a + 7))),
                None if non_int(m, "a") => Exp::Any,
                None => Exp::Fail,
            },
        },
        Stmt {
            src: "((a) => a + 1)(10)",
            targets: &[],
            inner: &[],
            model: |_m| Exp::Ok(Some(MV::Int(11))),
        },
        Stmt {
            src: "((a, b) => do { a = a + b; return a })(1, 2)",
            targets: &[],
            inner: &[],
            model: |_m| Exp::Ok(Some(MV::Int(3))),
        },
        Stmt {
            src: "f = () => do { a = a + 1; return a }",
            targets: &["f"],
            inner: &[],
            model: |m| {
                let cap = int(m, "a");
                let v = if non_int(m, "a") { MV::Opaque } else { MV::FunF(cap) };
                if bind(m, "f", v) { Exp::Ok(None) } else { Exp::Fail }
            },
        },
        Stmt {
            src: "f()",
            targets: &[],
            inner: &[],
            model: |m| match m.vars.get("f").cloned() {
                Some(MV::FunF(Some(a))) => Exp::Ok(Some(MV::Int(a + 1))),
                // `a` was unbound at definition: the body falls back to the caller's environment
                Some(MV::FunF(None)) => match int(m, "a") {
                    Some(a) => Exp::Ok(Some(MV::Int(a + 1))),
                    None if non_int(m, "a") => Exp::Any,
                    None => Exp::Fail,
                },
                // f is bound to something else (a function over a non-number, or not a function)
                Some(MV::Opaque) => Exp::Any,
                _ => Exp::Fail,
            },
        },
        Stmt {
            src: "map([1], (a) => a)",
            targets: &[],
            inner: &[],
            model: |_m| Exp::Ok(Some(MV::List(vec![1]))),
        },
        Stmt {
            src: "[1] via (b) => b + 1",
            targets: &[],
            inner: &[],
            model: |_m| Exp::Ok(Some(MV::List(vec![2]))),
        },
        // do-blocks nested inside a called function: inner locals must not leak into the
        // function's own scope, alter its parameters, or be visible to sibling blocks
        Stmt {
            src: "((x) => do {\n  t = do { a = x; return 0 }\n  return [a, t]\n})(7)",
            targets: &[],
            inner: &["t", "x"],
            model: |m| match int(m, "a") {
                Some(a) => Exp::Ok(Some(MV::List(vec![a, 0]))),
                None if non_int(m, "a") => Exp::Any,
                None => Exp::Fail,
            },
        },
        Stmt {
            src: "((x) => do {\n  y = do { x = x * 100; return x }\n  return [x, y]\n})(2)",
            targets: &[],
            inner: &["x", "y"],
            model: |_m| Exp::Ok(Some(MV::List(vec![2, 200]))),
        },
        Stmt {
            src: "((x) => do {\n  p = do { tmp = x + 1; return tmp }\n  return tmp\n})(1)",
            targets: &[],
            inner: &["tmp", "p", "x"],
            model: |_m| Exp::Fail,
        },
        Stmt {
            src: "((x) => do {\n  p = do { q = 1; return q }\n  r = do { return q }\n  return r\n})(0)",
            targets: &[],
            inner: &["q", "p", "r"],
            model: |_m| Exp::Fail,
        },
        Stmt {
            src: "[5] via ((b) => do {\n  u = do { b = b + 1; return b }\n  return [b, u]\n})",
            targets: &[],
            inner: &["u"],
            model: |_m| Exp::Ok(None),
        },
        // an assignment expression inside a function body (not a do-block) may not rebind a
        // visible outer name, and never binds anything at top level
        Stmt {
            src: "((x) => (a = x))(9)",
            targets: &[],
            inner: &[],
            model: |m| if m.vars.contains_key("a") { Exp::Fail } else { Exp::Ok(Some(MV::Int(9))) },
        },
        Stmt {
            src: "[4] via (x => [b = x, b])",
            targets: &[],
            inner: &[],
            model: |m| if m.vars.contains_key("b") { Exp::Fail } else { Exp::Ok(None) },
        },
        // anonymous, parameterless, capture-free functions whose body is an assignment: the
        // binding lives in the call, never at top level
        Stmt {
            src: "(() => (b = 5))()",
            targets: &[],
            inner: &[],
            model: |m| if m.vars.contains_key("b") { Exp::Fail } else { Exp::Ok(Some(MV::Int(5))) },
        },
        // ... and the same with a captured name in the body (the call must still get a scope of its own)
        Stmt {
            src: "(() => (b = a))()",
            targets: &[],
            inner: &[],
            model: |m| {
                if !m.vars.contains_key("a") || m.vars.contains_key("b") {
                    Exp::Fail
                } else {
                    match m.vars.get("a") {
                        Some(MV::Int(a)) => Exp::Ok(Some(MV::Int(*a))),
                        _ => Exp::Ok(None),
                    }
                }
            },
        },
        Stmt {
            src: "[() => [a, (b = [a])]][0]()",
            targets: &[],
            inner: &[],
            model: |m| if !m.vars.contains_key("a") || m.vars.contains_key("b") { Exp::Fail } else { Exp::Ok(None) },
        },
        Stmt {
            src: "[() => (a = 1)][0]() + (() => (b = 2) * b)()",
            targets: &[],
            inner: &[],
            model: |m| if m.vars.contains_key("a") || m.vars.contains_key("b") { Exp::Fail } else { Exp::Ok(Some(MV::Int(5))) },
        },
        // do-blocks without statements whose return expression is (or contains) an assignment:
        // the binding belongs to the block, whatever the block's position
        Stmt { src: "do { return a = 8 }", targets: &[], inner: &[], model: |_m| Exp::Ok(Some(MV::Int(8))) },
        // (an assignment nested inside the return expression is an ordinary assignment expression: it
        // refuses to shadow a visible outer name, like the lambda-body case below)
        Stmt {
            src: "do { return (b = 4) + 1 }",
            targets: &[],
            inner: &[],
            model: |m| if m.vars.contains_key("b") { Exp::Fail } else { Exp::Ok(Some(MV::Int(5))) },
        },
        Stmt { src: "if true then do { return a = 3 } else 0", targets: &[], inner: &[], model: |_m| Exp::Ok(Some(MV::Int(3))) },
        Stmt {
            src: "b = do { return a = 6 }",
            targets: &["b"],
            inner: &[],
            model: |m| if bind(m, "b", MV::Int(6)) { Exp::Ok(Some(MV::Int(6))) } else { Exp::Fail },
        },
        Stmt { src: "do { return inputs = 5 }", targets: &[], inner: &[], model: |_m| Exp::Any },
        Stmt { src: "do {\n  // only a comment\n  return sum = 3\n}", targets: &[], inner: &[], model: |_m| Exp::Any },
        // a statement whose value expression binds the statement's own target: the name cannot be bound
        // twice, so the statement fails (the inner binding, made first, stays)
        Stmt {
            src: "a = (a = 2) + 1",
            targets: &["a"],
            inner: &[],
            model: |m| {
                bind(m, "a", MV::Int(2));
                Exp::Fail
            },
        },
        // ... wherever in the value expression the inner binding sits: computed record key, record
        // spread, call argument, condition, indexed operand
        Stmt { src: "a = {[a = \"k\"]: 1}", targets: &["a"], inner: &[], model: |m| { bind(m, "a", MV::Opaque); Exp::Fail } },
        Stmt { src: "b = {...(b = {z: 1}), y: 2}", targets: &["b"], inner: &[], model: |m| { bind(m, "b", MV::Opaque); Exp::Fail } },
        Stmt { src: "a = (x => x)(a = 4)", targets: &["a"], inner: &["x"], model: |m| { bind(m, "a", MV::Int(4)); Exp::Fail } },
        Stmt { src: "b = if (b = true) then 1 else 2", targets: &["b"], inner: &[], model: |m| { bind(m, "b", MV::Opaque); Exp::Fail } },
        Stmt { src: "a = (a = [7])[0]", targets: &["a"], inner: &[], model: |m| { bind(m, "a", MV::List(vec![7])); Exp::Fail } },
        Stmt {
            src: "output b = [b = 4, b]",
            targets: &["b"],
            inner: &[],
            model: |m| {
                bind(m, "b", MV::Int(4));
                Exp::Fail
            },
        },
        Stmt { src: "a = nope", targets: &["a"], inner: &[], model: |_m| Exp::Fail },
        Stmt {
            src: "b = (a = 1) + nope",
            targets: &["a", "b"],
            inner: &[],
            model: |m| {
                if m.vars.contains_key("b") {
                    return Exp::Fail;
                }
                bind(m, "a", MV::Int(1));
                Exp::Fail
            },
        },
        Stmt {
            src: "b = do { a = 9; return nope }",
            targets: &["b"],
            inner: &[],
            model: |_m| Exp::Fail,
        },
        Stmt { src: "sum = 1", targets: &[], inner: &[], model: reserved_fail },
        Stmt { src: "map = 1", targets: &[], inner: &[], model: reserved_fail },
        Stmt { src: "inputs = 1", targets: &[], inner: &[], model: reserved_fail },
        Stmt { src: "constants = 1", targets: &[], inner: &[], model: reserved_fail },
        Stmt { src: "inf = 5", targets: &[], inner: &[], model: reserved_fail },
        Stmt { src: "infinity = 5", targets: &[], inner: &[], model: reserved_fail },
        Stmt { src: "if = 1", targets: &[], inner: &[], model: reserved_fail },
        Stmt { src: "true = 1", targets: &[], inner: &[], model: reserved_fail },
        Stmt { src: "null = 1", targets: &[], inner: &[], model: reserved_fail },
        Stmt { src: "and = 1", targets: &[], inner: &[], model: reserved_fail },
        Stmt { src: "output = 1", targets: &[], inner: &[], model: reserved_fail },
        Stmt { src: "b = [sum = 1]", targets: &["b"], inner: &[], model: reserved_fail },
    ]
}

fn set_out(m: &mut Model, name: &str, v: MV) {
    if let Some(e) = m.outs.iter_mut().find(|(n, _)| n == name) {
        e.1 = v;
    } else {
        m.outs.push((name.to_string(), v));
    }
}

const RESERVED: &[&str] = &[
    "sum", "map", "constants", "inf", "infinity", "if", "then", "else", "true", "false", "null", "and", "or", "not",
    "do", "return", "output",
];

fn mv_canon(v: &MV) -> Option<String> {
    match v {
        MV::Int(i) => Some(num_repr(*i as f64)),
        MV::List(l) => Some(format!("[{}]", l.iter().map(|i| num_repr(*i as f64)).collect::<Vec<_>>().join(", "))),
        MV::FunF(_) | MV::Opaque => None,
    }
}

fn build(alpha: &[Stmt], hist: &[u8]) -> (Session, Model) {
    let mut s = Session::new();
    let mut m = Model::default();
    for &i in hist {
        let _ = s.run(alpha[i as usize].src);
        let _ = (alpha[i as usize].model)(&mut m);
    }
    (s, m)
}

fn state_key(s: &Session) -> String {
    let snap = s.snapshot();
    let mut k = String::new();
    for (n, v) in &snap {
        k.push_str(n);
        k.push('=');
        k.push_str(v);
        k.push(';');
    }
    k.push_str("|out:");
    for (n, v) in &s.outputs {
        k.push_str(n);
        k.push('=');
        k.push_str(&canon_sv(v));
        k.push(';');
    }
    k
}

struct StepResult {
    key: String,
    problems: Vec<(String, String, String)>, // (kind, expected, observed)
    status: &'static str,
}

fn step(alpha: &[Stmt], hist: &[u8], next: u8) -> StepResult {
    let (mut s, mut m) = build(alpha, hist);
    let before = s.snapshot();
    let st = &alpha[next as usize];
    let outcome = s.run(st.src);
    // reading the session back must not panic either (a binding that points at a freed or reused heap
    // cell would)
    let after = match catch(std::panic::AssertUnwindSafe(|| s.snapshot())) {
        Ok(a) => a,
        Err(p) => {
            return StepResult { key: format!("panic:{}", p), problems: vec![("panic-reading-bindings".into(), "every binding can be read".into(), p)], status: "panic" };
        }
    };
    let exp = (st.model)(&mut m);
    let mut problems = vec![];

    if let Outcome::Panic(p) = &outcome {
        problems.push(("panic".into(), "result or error".into(), p.clone()));
    }
    // (1) nothing bound before changes
    for (n, v) in &before {
        match after.get(n) {
            Some(w) if w == v => {}
            other => problems.push((
                "binding-changed".into(),
                format!("{} stays {}", n, v),
                format!("{} is now {:?}", n, other),
            )),
        }
    }
    // (2) reserved names never bound
    for r in RESERVED {
        if after.contains_key(*r) && !before.contains_key(*r) {
            problems.push((
                "reserved-bound".into(),
                format!("`{}` cannot be bound", r),
                format!("`{}` bound to {}", r, after[*r]),
            ));
        }
    }
    if after.get("inputs") != before.get("inputs") || !after.contains_key("inputs") {
        problems.push(("inputs-changed".into(), "inputs unchanged".into(), format!("{:?}", after.get("inputs"))));
    }
    // (3) new names are a subset of the statement's top-level targets; equal to the unbound
    //     targets when the statement succeeded
    let new: BTreeSet<&String> = after.keys().filter(|k| !before.contains_key(*k)).collect();
    for n in &new {
        if RESERVED.contains(&n.as_str()) {
            continue; // already reported by (2)
        }
        if !st.targets.contains(&n.as_str()) {
            problems.push((
                "leak".into(),
                format!("only {:?} may become visible", st.targets),
                format!("`{}` became visible", n),
            ));
        }
    }
    for n in st.inner {
        if after.contains_key(*n) {
            problems.push(("leak".into(), format!("`{}` is block-local", n), format!("`{}` visible at top level", n)));
        }
    }
    if outcome.is_ok() {
        for t in st.targets {
            if !after.contains_key(*t) {
                problems.push((
                    "target-missing".into(),
                    format!("`{}` bound after success", t),
                    "not bound".to_string(),
                ));
            }
        }
    }
    // (4) reads agree with the snapshot
    for (n, v) in &after {
        let got = s.lookup(n);
        if got.as_ref() != Some(v) {
            problems.push(("read-mismatch".into(), v.clone(), format!("{:?}", got)));
        }
    }
    // reference model: status, value, bindings, outputs
    match (&exp, &outcome) {
        (Exp::Fail, o) if o.is_ok() => problems.push((
            "model-status".into(),
            "statement fails".into(),
            format!("succeeded with {}", o.cmp_key()),
        )),
        (Exp::Ok(_), o) if !o.is_ok() => {
            problems.push(("model-status".into(), "statement succeeds".into(), format!("{:?}", o)))
        }
        (Exp::Ok(Some(v)), Outcome::Ok(got)) => {
            if let Some(c) = mv_canon(v) {
                if &c != got {
                    problems.push(("model-value".into(), c, got.clone()));
                }
            }
        }
        _ => {}
    }
    // model bindings vs real bindings (names; values where the model has a data value)
    let model_names: BTreeSet<String> = m.vars.keys().cloned().collect();
    let real_names: BTreeSet<String> =
        after.keys().filter(|k| k.as_str() != "inputs" && !RESERVED.contains(&k.as_str())).cloned().collect();
    if model_names != real_names {
        problems.push(("model-bindings".into(), format!("{:?}", model_names), format!("{:?}", real_names)));
    }
    for (n, v) in &m.vars {
        if let (Some(c), Some(r)) = (mv_canon(v), after.get(n)) {
            if &c != r {
                problems.push(("model-binding-value".into(), format!("{} = {}", n, c), format!("{} = {}", n, r)));
            }
        }
    }
    let model_outs: Vec<(String, Option<String>)> = m.outs.iter().map(|(n, v)| (n.clone(), mv_canon(v))).collect();
    let real_outs: Vec<(String, String)> = s.outputs.iter().map(|(n, v)| (n.clone(), canon_sv(v))).collect();
    let outs_ok = model_outs.len() == real_outs.len()
        && model_outs.iter().zip(real_outs.iter()).all(|(a, b)| a.0 == b.0 && a.1.as_ref().map(|x| x == &b.1).unwrap_or(true));
    if !outs_ok {
        problems.push(("model-outputs".into(), format!("{:?}", model_outs), format!("{:?}", real_outs)));
    }

    StepResult { key: state_key(&s), problems, status: outcome.status() }
}

fn class_of(src: &str) -> String {
    format!("stmt:{}", src.replace('\n', " "))
}

pub fn run(ctx: &Ctx, replay: Option<&J>) -> i32 {
    let alpha = alphabet();
    if let Some(r) = replay {
        let case = &r["case"];
        let hist: Vec<u8> = case["history"].as_array().map(|a| a.iter().map(|x| x.as_u64().unwrap() as u8).collect()).unwrap_or_default();
        let next = case["next"].as_u64().unwrap_or(0) as u8;
        let res = step(&alpha, &hist, next);
        let res2 = step(&alpha, &hist, next);
        if res.problems.len() != res2.problems.len() {
            eprintln!("replay diverged");
            return 2;
        }
        for (k, e, o) in &res.problems {
            println!("VIOLATION property=C03 replay={}", "<replayed>");
            println!("  kind={} expected={} observed={}", k, e, o);
        }
        return if res.problems.is_empty() { 0 } else { 1 };
    }

    // BFS to fixpoint
    let mut seen: HashMap<String, Vec<u8>> = HashMap::new();
    let mut frontier: VecDeque<Vec<u8>> = VecDeque::new();
    let (s0, _) = build(&alpha, &[]);
    seen.insert(state_key(&s0), vec![]);
    frontier.push_back(vec![]);
    let mut transitions: u64 = 0;
    let mut max_depth = 0usize;
    let cap_states = ctx.tier.pick(200_000usize, 2_000_000usize);
    while !frontier.is_empty() {
        // expand one BFS level in parallel
        let level: Vec<Vec<u8>> = frontier.drain(..).collect();
        let jobs: Vec<(usize, u8)> = (0..level.len()).flat_map(|i| (0..alpha.len() as u8).map(move |a| (i, a))).collect();
        // (a panic anywhere in a transition - while replaying the history, evaluating, or reading the
        // session back - is a finding for that transition, not a crash of the explorer)
        let results = par_map(&jobs, |(i, a)| match catch(|| step(&alpha, &level[*i], *a)) {
            Ok(r) => r,
            Err(p) => StepResult { key: format!("panic:{}:{}", i, a), problems: vec![("panic".into(), "a result or an error; every binding readable".into(), p)], status: "panic" },
        });
        for ((i, a), res) in jobs.iter().zip(results.into_iter()) {
            transitions += 1;
            ctx.count(1);
            ctx.outcome(&format!("stmt-{}", res.status));
            let hist = &level[*i];
            let st = &alpha[*a as usize];
            if res.status != "ok" && !st.targets.is_empty() {
                ctx.outcome("failing-binding-statement");
            }
            for (k, e, o) in res.problems {
                let mut h: Vec<&str> = hist.iter().map(|x| alpha[*x as usize].src).collect();
                h.push(st.src);
                ctx.violation(Violation {
                    kind: k,
                    class: class_of(st.src),
                    input: h.join(" ;; "),
                    expected: e,
                    observed: o,
                    case: json!({"history": hist, "next": a}),
                });
            }
            ctx.nontrivial(&format!("{}>{}", state_key_of(&seen, hist), a));
            if !seen.contains_key(&res.key) {
                let mut h = hist.clone();
                h.push(*a);
                max_depth = max_depth.max(h.len());
                if seen.len() < 4 || seen.len() % 97 == 0 {
                    ctx.sample(json!({"history": h.iter().map(|x| alpha[*x as usize].src).collect::<Vec<_>>(), "state": res.key}));
                }
                seen.insert(res.key, h.clone());
                frontier.push_back(h);
            }
        }
        if seen.len() > cap_states {
            ctx.cap(&format!("state cap {} reached", cap_states));
            break;
        }
    }
    ctx.set("max_depth", json!(max_depth));
    ctx.set("alphabet", json!(alpha.iter().map(|s| s.src).collect::<Vec<_>>()));
    ctx.set("fixpoint_reached", json!(ctx.caps.lock().unwrap().is_empty()));
    ctx.set(
        "trusted_base",
        json!(["reference model of the 56-statement alphabet in mc/src/c03.rs", "canonical state key (sorted bindings + outputs)"]),
    );
    ctx.assume("names and values outside the statement alphabet are not explored");
    // vacuity guards
    ctx.require_outcome("stmt-ok", 10);
    ctx.require_outcome("stmt-eval-error", 10);
    ctx.require_outcome("stmt-parse-error", 1);
    ctx.require_outcome("failing-binding-statement", 5);
    if seen.len() < 20 {
        ctx.machinery_error(format!("vacuity guard: only {} states", seen.len()));
    }
    finish(
        ctx,
        "model_checking",
        "BFS to fixpoint over sessions; transition = one statement of the alphabet through get_pairs/evaluate_pairs; \
         state key = sorted (name, canonical value) bindings + outputs; a case is (state, statement) and is counted once per distinct pair",
        true,
        Some((seen.len() as u64, transitions, transitions)),
    )
}

fn state_key_of(seen: &HashMap<String, Vec<u8>>, hist: &[u8]) -> String {
    // histories are unique representatives of states: the history itself identifies the state
    let _ = seen;
    hist.iter().map(|x| x.to_string()).collect::<Vec<_>>().join(",")
}
