//! C20 — displayed numbers are well-formed and accurate to 15 significant digits.

use crate::alpha::double_grid;
use crate::common::*;
use crate::oracle;
use blots_core::environment::Environment;
use blots_core::functions::{BuiltInFunction, FunctionDef};
use blots_core::heap::Heap;
use blots_core::values::{Value, format_display_number};
use serde_json::{Value as J, json};
use std::cell::RefCell;
use std::rc::Rc;

/// `format("{}", x)` through the real built-in (no parsing of x involved).
fn format_builtin(x: f64) -> Result<String, String> {
    // first a *failing* format call on the same thread, with a heap of its own (a template that is not
    // a string, after arguments that have already been rendered): nothing of it may show below
    {
        let heap = Rc::new(RefCell::new(Heap::new()));
        let env = Rc::new(Environment::new());
        let def = FunctionDef::BuiltIn(BuiltInFunction::Format);
        let _ = def.call(Value::BuiltIn(BuiltInFunction::Format), vec![Value::Number(1e21), Value::Number(98765.4321), Value::Number(0.00001)], Rc::clone(&heap), env, 0, "");
    }
    let heap = Rc::new(RefCell::new(Heap::new()));
    let env = Rc::new(Environment::new());
    let fmt = heap.borrow_mut().insert_string("{}".to_string());
    let def = FunctionDef::BuiltIn(BuiltInFunction::Format);
    let r = def
        .call(Value::BuiltIn(BuiltInFunction::Format), vec![fmt, Value::Number(x)], Rc::clone(&heap), env, 0, "")
        .map_err(|e| e.message)?;
    let s = r.as_string(&heap.borrow()).map_err(|e| e.to_string())?.to_string();
    Ok(s)
}

fn class_of(x: f64) -> String {
    let a = x.abs();
    if a == 0.0 {
        "zero".into()
    } else if !(0.0001..1e15).contains(&a) {
        "scientific".into()
    } else if x.fract() == 0.0 {
        "standard-integer".into()
    } else {
        "standard-fraction".into()
    }
}

/// `format("{}", v)` for a value built around x: the text must be the composition of the displays
/// of its parts, whatever the container.
fn format_in_containers(x: f64) -> Vec<(String, Result<String, String>, String)> {
    let single = match format_builtin(x) {
        Ok(s) => s,
        Err(_) => return vec![],
    };
    let two = format_builtin(2.0).unwrap_or_default();
    let big = format_builtin(1234567.0).unwrap_or_default();
    let mut out = vec![];
    let run = |build: &dyn Fn(&mut Heap) -> Value| -> Result<String, String> {
        let heap = Rc::new(RefCell::new(Heap::new()));
        let env = Rc::new(Environment::new());
        let fmt = heap.borrow_mut().insert_string("{}".to_string());
        let v = build(&mut heap.borrow_mut());
        let def = FunctionDef::BuiltIn(BuiltInFunction::Format);
        let r = def.call(Value::BuiltIn(BuiltInFunction::Format), vec![fmt, v], Rc::clone(&heap), env, 0, "").map_err(|e| e.message)?;
        let s = r.as_string(&heap.borrow()).map_err(|e| e.to_string())?.to_string();
        Ok(s)
    };
    out.push(("[x]".to_string(), run(&|h| h.insert_list(vec![Value::Number(x)])), format!("[{}]", single)));
    out.push(("[x, 2]".to_string(), run(&|h| h.insert_list(vec![Value::Number(x), Value::Number(2.0)])), format!("[{}, {}]", single, two)));
    out.push(("[1234567, x, x]".to_string(), run(&|h| h.insert_list(vec![Value::Number(1234567.0), Value::Number(x), Value::Number(x)])), format!("[{}, {}, {}]", big, single, single)));
    out.push(("[[x, 2], 2]".to_string(), run(&|h| { let inner = h.insert_list(vec![Value::Number(x), Value::Number(2.0)]); h.insert_list(vec![inner, Value::Number(2.0)]) }), format!("[[{}, {}], {}]", single, two, two)));
    out
}

pub fn run(ctx: &Ctx, replay: Option<&J>) -> i32 {
    if let Some(r) = replay {
        let bits = u64::from_str_radix(r["case"]["bits"].as_str().unwrap_or("0"), 16).unwrap_or(0);
        let x = f64::from_bits(bits);
        let text = format_display_number(x);
        let ans = oracle::ask(&[format!("D20 {:016x} {}", bits, text)]).unwrap_or_else(|e| vec![e]);
        println!("x = {:?} ({:016x})\nformat_display_number = {}\nformat built-in = {:?}\noracle: {}", x, bits, text, format_builtin(x), ans[0]);
        if ans[0] != "ok" {
            println!("VIOLATION property=C20 replay=<replayed>");
            return 1;
        }
        return 0;
    }
    let mut grid = double_grid(!ctx.quick());
    grid.extend([f64::NAN, f64::INFINITY, f64::NEG_INFINITY, 0.0, -0.0]);
    ctx.set("grid_size", json!(grid.len()));
    // render every x through both entry points
    let texts: Vec<(String, Result<String, String>)> = par_map(&grid, |x| {
        let a = catch(|| format_display_number(*x)).unwrap_or_else(|p| format!("<{}>", p));
        let b = catch(|| format_builtin(*x)).unwrap_or_else(|p| Err(p));
        (a, b)
    });
    let mut requests = vec![];
    for (x, (a, b)) in grid.iter().zip(texts.iter()) {
        ctx.count(2);
        requests.push(format!("D20 {:016x} {}", x.to_bits(), a.replace('\n', " ")));
        match b {
            Ok(t) if t == a => {}
            other => ctx.violation(Violation {
                kind: "builtin-differs-from-display".into(),
                class: class_of(*x),
                input: format!("{:?} ({:016x})", x, x.to_bits()),
                expected: a.clone(),
                observed: format!("{:?}", other),
                case: json!({"bits": format!("{:016x}", x.to_bits())}),
            }),
        }
    }
    // the same numbers inside lists (one element, two, three, nested): the displayed text is the
    // composition of the single displays
    {
        let step = if ctx.quick() { 7 } else { 1 };
        let sub: Vec<f64> = grid.iter().cloned().step_by(step).collect();
        let rows: Vec<Vec<(String, Result<String, String>, String)>> = par_map(&sub, |x| catch(|| format_in_containers(*x)).unwrap_or_default());
        for (x, row) in sub.iter().zip(rows.iter()) {
            for (shape, got, want) in row {
                ctx.count(1);
                ctx.outcome("display-in-container");
                if got.as_ref().ok() != Some(want) {
                    ctx.violation(Violation {
                        kind: "display-in-container".into(),
                        class: class_of(*x),
                        input: format!("format(\"{{}}\", {}) with x = {:?} ({:016x})", shape, x, x.to_bits()),
                        expected: want.clone(),
                        observed: format!("{:?}", got),
                        case: json!({"bits": format!("{:016x}", x.to_bits())}),
                    });
                }
            }
        }
    }
    let answers = match oracle::ask(&requests) {
        Ok(a) => a,
        Err(e) => {
            ctx.machinery_error(format!("oracle failed: {}", e));
            vec![]
        }
    };
    for ((x, (a, _)), ans) in grid.iter().zip(texts.iter()).zip(answers.iter()) {
        ctx.nontrivial(&format!("{:016x}", x.to_bits()));
        ctx.outcome(&class_of(*x));
        if ans != "ok" {
            ctx.violation(Violation {
                kind: "display".into(),
                class: class_of(*x),
                input: format!("{:?} ({:016x})", x, x.to_bits()),
                expected: "a well-formed numeral within one unit of the 15th significant digit".into(),
                observed: format!("{} -> {}", a, ans),
                case: json!({"bits": format!("{:016x}", x.to_bits())}),
            });
        }
    }
    for i in [0usize, grid.len() / 3, grid.len() / 2, grid.len() - 7] {
        ctx.sample(json!({"x": format!("{:?}", grid[i]), "bits": format!("{:016x}", grid[i].to_bits()), "display": texts[i].0}));
    }
    for c in ["scientific", "standard-integer", "standard-fraction"] {
        ctx.require_outcome(c, 500);
    }
    ctx.set("trusted_base", json!(["/verif/lib/oracle.py (python3 fractions: exact value of the double and of the numeral)"]));
    ctx.assume("doubles outside the enumerated grid are not explored");
    finish(
        ctx,
        "exploration",
        "every double of the finite grid N (sign x biased exponents x mantissa set, nearest doubles to 10^k +-3 ulp, 2^k +-{0,1,2}, threshold neighbourhoods, 15-digit carry cases, classical hard cases) plus NaN / infinities / zeros through format_display_number and the format built-in; the text is checked by an exact-rational oracle (numeral grammar, |text - x| < 10^(floor(log10|x|)-14), integers below 2^53 exact); distinct = distinct bit patterns",
        true,
        None,
    )
}
