//! C14 — indexing, spreading and the list / string / record built-ins satisfy their laws.
//!
//! Subjects (lists, strings, records) are enumerated exhaustively over small alphabets; each law is
//! a program evaluated by the real evaluator whose result is compared with a reference value the
//! harness computes on its own value type (`RV`).

use crate::alpha::*;
use crate::common::*;
use serde_json::{Value as J, json};
use std::cmp::Ordering;

/// Source text for any string, including ones with both quote kinds (built by concatenation).
pub fn str_src(s: &str) -> String {
    if let Some(q) = quote_str(s) {
        return q;
    }
    let mut parts: Vec<String> = vec![];
    let mut cur = String::new();
    for c in s.chars() {
        let mut probe = cur.clone();
        probe.push(c);
        if quote_str(&probe).is_none() {
            parts.push(quote_str(&cur).unwrap());
            cur = c.to_string();
        } else {
            cur = probe;
        }
    }
    parts.push(quote_str(&cur).unwrap());
    format!("({})", parts.join(" + "))
}

fn rv_src(v: &RV) -> String {
    match v {
        RV::Str(s) => str_src(s),
        RV::List(l) => format!("[{}]", l.iter().map(rv_src).collect::<Vec<_>>().join(", ")),
        RV::Rec(es) => format!(
            "{{{}}}",
            es.iter()
                .map(|(k, v)| format!("{}: {}", if is_ident(k) { k.clone() } else { format!("[{}]", str_src(k)) }, rv_src(v)))
                .collect::<Vec<_>>()
                .join(", ")
        ),
        other => other.src(),
    }
}

fn chars_of(s: &str) -> Vec<RV> {
    s.chars().map(|c| RV::Str(c.to_string())).collect()
}

fn num(n: usize) -> RV {
    RV::Num(n as f64)
}

struct Law {
    name: &'static str,
    program: String,
    /// None = only require success
    expected: Option<RV>,
}

fn mutually_comparable(l: &[RV]) -> bool {
    for a in l {
        for b in l {
            if a.compare(b).is_none() {
                return false;
            }
        }
    }
    true
}

fn multiset(l: &[RV]) -> Vec<String> {
    let mut v: Vec<String> = l.iter().map(|x| x.canon()).collect();
    v.sort();
    v
}

fn index_ref(l: &[RV], i: i64) -> RV {
    let n = l.len() as i64;
    let k = if i < 0 { n + i } else { i };
    if k < 0 || k >= n { RV::Null } else { l[k as usize].clone() }
}

fn list_laws(l: &[RV]) -> Vec<Law> {
    let mut laws = vec![];
    let n = l.len();
    let me = RV::List(l.to_vec());
    let law = |name: &'static str, program: &str, expected: Option<RV>| Law { name, program: program.to_string(), expected };
    let mut rev = l.to_vec();
    rev.reverse();
    laws.push(law("reverse", "reverse(l)", Some(RV::List(rev))));
    laws.push(law("reverse-involution", "reverse(reverse(l))", Some(me.clone())));
    laws.push(law("len", "len(l)", Some(num(n))));
    laws.push(law("head", "head(l)", Some(l.first().cloned().unwrap_or(RV::Null))));
    laws.push(law("tail", "tail(l)", Some(RV::List(l.iter().skip(1).cloned().collect()))));
    if n > 0 {
        laws.push(law("head-tail-rebuild", "[head(l), ...tail(l)]", Some(me.clone())));
    }
    laws.push(law("spread-identity", "[...l]", Some(me.clone())));
    laws.push(law("spread-call", "((...r) => r)(...l)", Some(me.clone())));
    laws.push(law("concat-self", "concat(l, l)", Some(RV::List(l.iter().chain(l.iter()).cloned().collect()))));
    let mval = vec![RV::Num(7.0), RV::s("z")];
    laws.push(law("spread-concat", "[...l, ...m]", Some(RV::List(l.iter().chain(mval.iter()).cloned().collect()))));
    laws.push(law("concat", "concat(l, m)", Some(RV::List(l.iter().chain(mval.iter()).cloned().collect()))));
    laws.push(law("concat3", "concat(m, l, m)", Some(RV::List(mval.iter().chain(l.iter()).chain(mval.iter()).cloned().collect()))));
    // unique: first member of each .== class, in order
    let mut uniq: Vec<RV> = vec![];
    for x in l {
        if !uniq.iter().any(|u| u.equals(x)) {
            uniq.push(x.clone());
        }
    }
    laws.push(law("unique", "unique(l)", Some(RV::List(uniq))));
    // chunk / flatten
    let chunk_sizes: Vec<usize> = if n <= 8 { (1..=(n.max(1) + 1).min(6)).collect() } else { vec![1, 2, 3, 7, 16, 17, n - 1, n, n + 1] };
    for c in chunk_sizes {
        let chunks: Vec<RV> = l.chunks(c).map(|ch| RV::List(ch.to_vec())).collect();
        laws.push(Law { name: "chunk", program: format!("chunk(l, {})", c), expected: Some(RV::List(chunks)) });
        laws.push(Law { name: "flatten-chunk", program: format!("flatten(chunk(l, {}))", c), expected: Some(me.clone()) });
    }
    // flatten flattens exactly one level
    let mut flat = vec![];
    for x in l {
        match x {
            RV::List(inner) => flat.extend(inner.iter().cloned()),
            o => flat.push(o.clone()),
        }
    }
    laws.push(law("flatten", "flatten(l)", Some(RV::List(flat))));
    // slice on every in-range pair (long lists: pairs around the ends and the middle)
    let cuts: Vec<usize> = if n <= 8 { (0..=n).collect() } else { vec![0, 1, 2, n / 2, n - 2, n - 1, n] };
    for &a in &cuts {
        for &b in cuts.iter().filter(|b| **b >= a) {
            laws.push(Law { name: "slice", program: format!("slice(l, {}, {})", a, b), expected: Some(RV::List(l[a..b].to_vec())) });
        }
    }
    // zip padding
    let zipped: Vec<RV> = (0..n.max(2))
        .map(|i| RV::List(vec![l.get(i).cloned().unwrap_or(RV::Null), mval.get(i).cloned().unwrap_or(RV::Null)]))
        .collect();
    laws.push(law("zip", "zip(l, m)", Some(RV::List(zipped))));
    let zipped3: Vec<RV> = (0..n.max(2))
        .map(|i| RV::List(vec![mval.get(i).cloned().unwrap_or(RV::Null), l.get(i).cloned().unwrap_or(RV::Null), l.get(i).cloned().unwrap_or(RV::Null)]))
        .collect();
    laws.push(law("zip3", "zip(m, l, l)", Some(RV::List(zipped3))));
    // indexing
    let idxs: Vec<i64> = if n <= 8 { (-(n as i64) - 2..=(n as i64) + 1).collect() } else { vec![-(n as i64) - 1, -(n as i64), -17, -16, -1, 0, 1, 15, 16, 17, n as i64 - 1, n as i64, n as i64 + 1] };
    for i in idxs {
        laws.push(Law { name: "index", program: format!("l[{}]", if i < 0 { format!("(-{})", -i) } else { i.to_string() }), expected: Some(index_ref(l, i)) });
    }
    // includes
    laws.push(law("includes", "includes(l, 1)", Some(RV::Bool(l.iter().any(|x| x.equals(&RV::Num(1.0)))))));
    laws
}

/// Laws whose expected value needs the observed value (sort family, group_by): program -> checker
fn check_sort(ctx: &Ctx, sess: &mut Session, l: &[RV], lsrc: &str) {
    let viol = |kind: &str, prog: &str, exp: String, obs: String| {
        ctx.violation(Violation {
            kind: kind.to_string(),
            class: format!("len{}", if l.len() >= 21 { "21+".to_string() } else { (l.len().min(6)).to_string() }),
            input: format!("l = {} ; {}", lsrc, prog),
            expected: exp,
            observed: obs,
            case: json!({"subject": lsrc, "program": prog}),
        });
    };
    // sort
    let out = sess.run("sort(l)");
    ctx.count(1);
    match &out {
        Outcome::Ok(c) => {
            let got = parse_canon_list(c);
            match got {
                None => viol("sort", "sort(l)", "a list".into(), c.clone()),
                Some(items) => {
                    let mut a = items.clone();
                    a.sort();
                    if a != multiset(l) {
                        viol("sort-permutation", "sort(l)", format!("a permutation of {:?}", multiset(l)), c.clone());
                    } else if mutually_comparable(l) {
                        // expected: stable sort by the reference order
                        let mut exp = l.to_vec();
                        exp.sort_by(|x, y| x.compare(y).unwrap());
                        let e = RV::List(exp).canon();
                        ctx.outcome("sort-comparable");
                        if &e != c {
                            viol("sort-order-stability", "sort(l)", e, c.clone());
                        }
                    } else {
                        ctx.outcome("sort-incomparable");
                    }
                }
            }
        }
        other => viol("sort", "sort(l)", "a list".into(), format!("{:?}", other)),
    }
    // sort_by with tagged pairs: key = element, tag = position; stability is observable
    let tagged = "zip(l, range(len(l)))";
    for (key_fn, key_name) in [("p => p[0]", "elem"), ("keyrec", "recursive-key")] {
        let prog = format!("sort_by({}, {})", tagged, key_fn);
        let out = sess.run(&prog);
        ctx.count(1);
        match &out {
            Outcome::Ok(c) => {
                let mut exp: Vec<(RV, usize)> = l.iter().cloned().zip(0..).collect();
                let items = parse_canon_list(c);
                let mut ms: Vec<String> = exp.iter().map(|(v, i)| RV::List(vec![v.clone(), num(*i)]).canon()).collect();
                ms.sort();
                let mut got_ms = items.clone().unwrap_or_default();
                got_ms.sort();
                if got_ms != ms {
                    viol("sort_by-permutation", &prog, format!("{:?}", ms), c.clone());
                } else if mutually_comparable(l) {
                    exp.sort_by(|x, y| x.0.compare(&y.0).unwrap());
                    let e = RV::List(exp.into_iter().map(|(v, i)| RV::List(vec![v, num(i)])).collect()).canon();
                    ctx.outcome(&format!("sort_by-{}-comparable", key_name));
                    if &e != c {
                        viol("sort_by-order-stability", &prog, e, c.clone());
                    }
                }
            }
            other => viol("sort_by", &prog, "a list".into(), format!("{:?}", other)),
        }
    }
    // group_by / count_by with typeof as key: partition, order, counts
    for (f, fname) in [("typeof", "typeof"), ("x => to_string(x .== 1)", "lambda"), ("grec", "recursive")] {
        let prog = format!("entries(group_by(l, {}))", f);
        let out = sess.run(&prog);
        let cnt = sess.run(&format!("entries(count_by(l, {}))", f));
        ctx.count(2);
        let key_of = |x: &RV| -> String {
            match fname {
                "typeof" => x.type_name().to_string(),
                "recursive" => if x.is_list() { "null".to_string() } else { x.type_name().to_string() },
                _ => x.equals(&RV::Num(1.0)).to_string(),
            }
        };
        let mut groups: Vec<(String, Vec<RV>)> = vec![];
        for x in l {
            let k = key_of(x);
            match groups.iter_mut().find(|(g, _)| *g == k) {
                Some((_, v)) => v.push(x.clone()),
                None => groups.push((k, vec![x.clone()])),
            }
        }
        let exp = RV::List(groups.iter().map(|(k, v)| RV::List(vec![RV::Str(k.clone()), RV::List(v.clone())])).collect());
        let expc = RV::List(groups.iter().map(|(k, v)| RV::List(vec![RV::Str(k.clone()), num(v.len())])).collect());
        ctx.outcome("group_by-checked");
        if out != Outcome::Ok(exp.canon()) {
            viol("group_by", &prog, exp.canon(), out.cmp_key());
        }
        if cnt != Outcome::Ok(expc.canon()) {
            viol("count_by", &format!("entries(count_by(l, {}))", f), expc.canon(), cnt.cmp_key());
        }
    }
}

/// Split a canonical list rendering into its top-level items.
pub fn parse_canon_list(c: &str) -> Option<Vec<String>> {
    let inner = c.strip_prefix('[')?.strip_suffix(']')?;
    let mut items = vec![];
    let mut depth = 0i32;
    let mut in_str = false;
    let mut esc = false;
    let mut cur = String::new();
    let chars: Vec<char> = inner.chars().collect();
    let mut i = 0;
    while i < chars.len() {
        let ch = chars[i];
        if in_str {
            cur.push(ch);
            if esc {
                esc = false;
            } else if ch == '\\' {
                esc = true;
            } else if ch == '"' {
                in_str = false;
            }
        } else {
            match ch {
                '"' => {
                    in_str = true;
                    cur.push(ch)
                }
                '[' | '{' => {
                    depth += 1;
                    cur.push(ch)
                }
                ']' | '}' => {
                    depth -= 1;
                    cur.push(ch)
                }
                ',' if depth == 0 => {
                    items.push(cur.trim().to_string());
                    cur = String::new();
                }
                _ => cur.push(ch),
            }
        }
        i += 1;
    }
    if !cur.trim().is_empty() {
        items.push(cur.trim().to_string());
    }
    Some(items)
}

fn string_laws(s: &str) -> Vec<Law> {
    let ch = chars_of(s);
    let n = ch.len();
    let mut laws = vec![];
    let law = |name: &'static str, program: &str, expected: Option<RV>| Law { name, program: program.to_string(), expected };
    let me = RV::Str(s.to_string());
    laws.push(law("str-spread", "[...s]", Some(RV::List(ch.clone()))));
    laws.push(law("str-len", "len(s)", Some(num(n))));
    laws.push(law("str-len-spread", "len(s) == len([...s])", Some(RV::Bool(true))));
    laws.push(law("str-head", "head(s)", Some(ch.first().cloned().unwrap_or(RV::s("")))));
    laws.push(law("str-tail", "tail(s)", Some(RV::Str(s.chars().skip(1).collect()))));
    laws.push(law("str-head-tail-rebuild", "head(s) + tail(s)", Some(me.clone())));
    if n > 0 {
        laws.push(law("str-head-index", "head(s) == s[0]", Some(RV::Bool(true))));
    }
    for i in -(n as i64) - 1..=(n as i64) + 1 {
        laws.push(Law { name: "str-index", program: format!("s[{}]", if i < 0 { format!("(-{})", -i) } else { i.to_string() }), expected: Some(index_ref(&ch, i)) });
    }
    for a in 0..=n {
        for b in a..=n {
            let sub: String = s.chars().skip(a).take(b - a).collect();
            laws.push(Law { name: "str-slice", program: format!("slice(s, {}, {})", a, b), expected: Some(RV::Str(sub)) });
        }
    }
    laws.push(law("str-join-spread", "join([...s], \"\")", Some(me.clone())));
    laws.push(law("str-concat-spread", "concat([], [], ...s)", Some(RV::List(ch.clone()))));
    // join(split(s, d), d) == s for every delimiter
    for d in ["", ",", "a", " ", "\u{e9}", "ab", "\n", "\u{1f600}"] {
        laws.push(Law { name: "str-split-join", program: format!("join(split(s, {}), {})", str_src(d), str_src(d)), expected: Some(me.clone()) });
        if !d.is_empty() {
            let parts: Vec<RV> = s.split(d).map(RV::s).collect();
            laws.push(Law { name: "str-split", program: format!("split(s, {})", str_src(d)), expected: Some(RV::List(parts)) });
        }
    }
    laws.push(law("str-includes-self", "includes(s, s)", Some(RV::Bool(true))));
    // every contiguous sub-sequence of characters is included; a foreign character is not
    for a in 0..n {
        for b in (a + 1)..=n {
            let sub: String = s.chars().skip(a).take(b - a).collect();
            laws.push(Law { name: "str-includes-sub", program: format!("includes(s, {})", str_src(&sub)), expected: Some(RV::Bool(true)) });
        }
    }
    laws.push(law("str-includes-foreign", "includes(s, \"\u{2603}\")", Some(RV::Bool(false))));
    // replace acts on the character sequence: deleting / doubling every occurrence of one character
    let mut distinct: Vec<char> = vec![];
    for c in s.chars() {
        if !distinct.contains(&c) {
            distinct.push(c);
        }
    }
    for c in &distinct {
        let cs = c.to_string();
        let removed: String = s.chars().filter(|x| x != c).collect();
        let doubled: String = s.chars().flat_map(|x| if x == *c { vec![x, x] } else { vec![x] }).collect();
        laws.push(Law { name: "str-replace", program: format!("replace(s, {}, \"\")", str_src(&cs)), expected: Some(RV::Str(removed)) });
        laws.push(Law { name: "str-replace", program: format!("replace(s, {}, {})", str_src(&cs), str_src(&format!("{}{}", c, c))), expected: Some(RV::Str(doubled)) });
        laws.push(Law { name: "str-replace", program: format!("replace(s, {}, {})", str_src(&cs), str_src(&cs)), expected: Some(me.clone()) });
    }
    laws.push(law("str-replace-foreign", "replace(s, \"\u{2603}\", \"x\")", Some(me.clone())));
    // case mapping is character-wise on this alphabet (no context-sensitive or expanding mappings in it)
    laws.push(law("str-uppercase-charwise", "join([...s] via uppercase, \"\") == uppercase(s)", Some(RV::Bool(true))));
    laws.push(law("str-lowercase-charwise", "join([...s] via lowercase, \"\") == lowercase(s)", Some(RV::Bool(true))));
    laws.push(law("str-case-len", "[len(uppercase(s)), len(lowercase(s))]", Some(RV::List(vec![num(n), num(n)]))));
    laws.push(law("str-uppercase", "uppercase(s)", Some(RV::Str(s.to_uppercase()))));
    laws.push(law("str-lowercase", "lowercase(s)", Some(RV::Str(s.to_lowercase()))));
    // trim removes blanks at both ends only (checked where ASCII and Unicode notions of blank agree)
    let ascii_ws = |c: char| c == ' ' || c == '\n' || c == '\t' || c == '\r';
    if s.trim() == s.trim_matches(ascii_ws) {
        laws.push(law("str-trim", "trim(s)", Some(RV::Str(s.trim().to_string()))));
    }
    laws.push(law("str-to_string", "to_string(s)", Some(me.clone())));
    laws.push(law("str-record-spread", "{...s}", Some(RV::Rec(ch.iter().enumerate().map(|(i, c)| (i.to_string(), c.clone())).collect()))));
    laws
}

/// The string laws at selected positions only, for long strings.
fn long_string_laws(s: &str) -> Vec<Law> {
    let ch = chars_of(s);
    let n = ch.len();
    let mut laws = vec![];
    let law = |name: &'static str, program: &str, expected: Option<RV>| Law { name, program: program.to_string(), expected };
    let me = RV::Str(s.to_string());
    laws.push(law("str-len", "len(s)", Some(num(n))));
    laws.push(law("str-len-spread", "len([...s])", Some(num(n))));
    laws.push(law("str-spread-rejoin", "join([...s], \"\") == s", Some(RV::Bool(true))));
    laws.push(law("str-head", "head(s)", Some(ch.first().cloned().unwrap_or(RV::s("")))));
    laws.push(law("str-tail-len", "len(tail(s))", Some(num(n.saturating_sub(1)))));
    laws.push(law("str-head-tail-rebuild", "head(s) + tail(s) == s", Some(RV::Bool(true))));
    let ni = n as i64;
    for i in [0, 1, 2, ni / 2, ni - 2, ni - 1, ni, ni + 1, -1, -2, -ni, -ni - 1] {
        laws.push(Law { name: "str-index", program: format!("s[{}]", if i < 0 { format!("(-{})", -i) } else { i.to_string() }), expected: Some(index_ref(&ch, i)) });
    }
    let cuts: Vec<usize> = vec![0, 1, 2, n / 3, n / 2, n - 2, n - 1, n];
    for &a in &cuts {
        for &b in cuts.iter().filter(|b| **b >= a) {
            let sub: String = s.chars().skip(a).take(b - a).collect();
            laws.push(Law { name: "str-slice", program: format!("slice(s, {}, {}) == {}", a, b, str_src(&sub)), expected: Some(RV::Bool(true)) });
            if b - a <= 40 && b > a {
                laws.push(Law { name: "str-includes-sub", program: format!("includes(s, {})", str_src(&sub)), expected: Some(RV::Bool(true)) });
            }
        }
    }
    laws.push(law("str-slice-rebuild", &format!("slice(s, 0, {}) + slice(s, {}, {}) == s", n / 2, n / 2, n), Some(RV::Bool(true))));
    for d in [",", "a", "\u{e9}", "\u{1f600}", "ab"] {
        laws.push(Law { name: "str-split-join", program: format!("join(split(s, {}), {}) == s", str_src(d), str_src(d)), expected: Some(RV::Bool(true)) });
        laws.push(Law { name: "str-split", program: format!("len(split(s, {}))", str_src(d)), expected: Some(num(s.split(d).count())) });
    }
    laws.push(law("str-includes-foreign", "includes(s, \"\u{2603}\")", Some(RV::Bool(false))));
    let removed: String = s.chars().filter(|x| *x != 'a').collect();
    laws.push(Law { name: "str-replace", program: format!("replace(s, \"a\", \"\") == {}", str_src(&removed)), expected: Some(RV::Bool(true)) });
    laws.push(law("str-case-len", "[len(uppercase(s)), len(lowercase(s))]", Some(RV::List(vec![num(n), num(n)]))));
    laws.push(Law { name: "str-uppercase", program: format!("uppercase(s) == {}", str_src(&s.to_uppercase())), expected: Some(RV::Bool(true)) });
    laws.push(Law { name: "str-trim", program: format!("trim(\"  \" + s + \"  \") == {}", str_src(s.trim())), expected: Some(RV::Bool(true)) });
    laws.push(law("str-to_string", "to_string(s) == s", Some(RV::Bool(true))));
    let _ = me;
    laws
}

fn record_laws(r: &[(String, RV)]) -> Vec<Law> {
    let mut laws = vec![];
    let law = |name: &'static str, program: String, expected: Option<RV>| Law { name, program, expected };
    laws.push(law("rec-keys", "keys(r)".into(), Some(RV::List(r.iter().map(|(k, _)| RV::Str(k.clone())).collect()))));
    laws.push(law("rec-values", "values(r)".into(), Some(RV::List(r.iter().map(|(_, v)| v.clone()).collect()))));
    let ents = RV::List(r.iter().map(|(k, v)| RV::List(vec![RV::Str(k.clone()), v.clone()])).collect());
    laws.push(law("rec-entries", "entries(r)".into(), Some(ents.clone())));
    laws.push(law("rec-spread", "[...r]".into(), Some(ents)));
    laws.push(law("rec-values-via-keys", "(keys(r) via (k => r[k])) .== values(r)".into(), Some(RV::Bool(true))));
    laws.push(law("rec-spread-identity", "{...r} .== r".into(), Some(RV::Bool(true))));
    for probe in ["a", "b", "zz", "", "a b", "0"] {
        let v = r.iter().find(|(k, _)| k == probe).map(|(_, v)| v.clone()).unwrap_or(RV::Null);
        laws.push(law("rec-index", format!("r[{}]", str_src(probe)), Some(v.clone())));
        if is_ident(probe) {
            laws.push(law("rec-field", format!("r.{}", probe), Some(v)));
        }
    }
    laws
}

/// Fractional indices: the statement fixes no rounding mode, but an index strictly between two valid
/// positions denotes one of them - the result is the element at one of the two adjacent integer
/// indices (never null, never another element), and every index beyond the ends yields null.
fn check_fractional_index(ctx: &Ctx, sess: &mut Session, seq: &[RV], var: &str, subject_src: &str) {
    let n = seq.len() as i64;
    let ks: Vec<i64> = if n <= 8 { (-n - 2..=n + 1).collect() } else { vec![-n - 1, -n, -2, -1, 0, 1, n - 2, n - 1, n] };
    for k in ks {
        for frac in [0.25, 0.5, 0.75] {
            let i = k as f64 + frac; // strictly between k and k + 1
            let prog = format!("{}[{}]", var, if i < 0.0 { format!("({})", i) } else { format!("{}", i) });
            let out = sess.run(&prog);
            ctx.count(1);
            ctx.outcome("index-fractional");
            let (lo, hi) = (index_ref(seq, k), index_ref(seq, k + 1));
            // k = -1: the neighbours are the last and the first position
            let ok = match &out {
                Outcome::Ok(c) => c == &lo.canon() || c == &hi.canon(),
                _ => false,
            };
            // differential, no rounding mode assumed: a string / list is the same sequence that spreading
            // exposes, so the same index expression selects the same element of the subject and of its spread
            let prog2 = format!("[...{}]{}", var, &prog[var.len()..]);
            let out2 = sess.run(&prog2);
            ctx.count(1);
            ctx.outcome("index-fractional-vs-spread");
            if out.cmp_key() != out2.cmp_key() {
                ctx.violation(Violation {
                    kind: "index-fractional-vs-spread".into(),
                    class: subject_class(subject_src),
                    input: format!("{} ; {} vs {}", subject_src, prog, prog2),
                    expected: format!("the same element from the subject and from its spread ({})", out2.cmp_key()),
                    observed: out.cmp_key(),
                    case: json!({"subject": subject_src, "program": prog, "program2": prog2}),
                });
            }
            if !ok {
                ctx.violation(Violation {
                    kind: "index-fractional".into(),
                    class: subject_class(subject_src),
                    input: format!("{} ; {}", subject_src, prog),
                    expected: format!("{} or {} (the elements at {} and {})", lo.canon(), hi.canon(), k, k + 1),
                    observed: out.cmp_key(),
                    case: json!({"subject": subject_src, "program": prog}),
                });
            }
        }
    }
}

fn run_laws(ctx: &Ctx, sess: &mut Session, subject_src: &str, laws: Vec<Law>) {
    for law in laws {
        let out = sess.run(&law.program);
        ctx.count(1);
        ctx.outcome(law.name);
        let ok = match (&law.expected, &out) {
            (Some(e), Outcome::Ok(c)) => &e.canon() == c,
            (None, Outcome::Ok(_)) => true,
            _ => false,
        };
        if !ok {
            ctx.violation(Violation {
                kind: law.name.to_string(),
                class: subject_class(subject_src),
                input: format!("{} ; {}", subject_src, law.program),
                expected: law.expected.map(|e| e.canon()).unwrap_or("success".into()),
                observed: out.cmp_key(),
                case: json!({"subject": subject_src, "program": law.program}),
            });
        }
    }
}

fn subject_class(src: &str) -> String {
    if src.starts_with("s = ") {
        if src.is_ascii() { "ascii-string".into() } else { "non-ascii-string".into() }
    } else if src.starts_with("r = ") {
        "record".into()
    } else {
        "list".into()
    }
}

const PRELUDE: &str = "xn = [0/0]\nrn = {k: 0/0}\nxs = [1, \"a\"]\nm = [7, \"z\"]\nkeyrec = p => if len(p) > 1 then keyrec([p[0]]) else p[0]\ngrec = x => if typeof(x) == \"list\" then grec(null) else typeof(x)\n";

pub fn run(ctx: &Ctx, replay: Option<&J>) -> i32 {
    if let Some(r) = replay {
        let mut sess = Session::new();
        sess.run(PRELUDE);
        let subj = r["case"]["subject"].as_str().unwrap_or("");
        let prog = r["case"]["program"].as_str().unwrap_or("");
        let s = if subj.contains(" = ") { subj.to_string() } else { format!("l = {}", subj) };
        let o0 = sess.run(&s);
        let o = sess.run(prog);
        println!("{} -> {:?}\n{} -> {:?}\nexpected: {}", s, o0.status(), prog, o, r["expected"]);
        if let Some(p2) = r["case"]["program2"].as_str() {
            let o2 = sess.run(p2);
            println!("{} -> {:?}", p2, o2);
            if o.cmp_key() != o2.cmp_key() {
                println!("VIOLATION property=C14 replay=<replayed>");
                return 1;
            }
            return 0;
        }
        let exp = r["expected"].as_str().unwrap_or("");
        if o.cmp_key() != format!("ok:{}", exp) {
            println!("VIOLATION property=C14 replay=<replayed>");
            return 1;
        }
        return 0;
    }
    let thorough = !ctx.quick();
    // ---- lists
    let alpha = vec![RV::Num(1.0), RV::Num(0.0), RV::s("a"), RV::Num(2.0), RV::Null, RV::Num(f64::NAN)];
    let mut lists: Vec<Vec<RV>> = words(&alpha, if thorough { 5 } else { 4 });
    // comparable-but-distinguishable elements for stability: 0 / -0, [0] / [-0]
    let stab = vec![RV::Num(0.0), RV::Num(-0.0), RV::Num(1.0), RV::List(vec![RV::Num(0.0)]), RV::List(vec![RV::Num(-0.0)])];
    lists.extend(words(&stab, if thorough { 5 } else { 4 }));
    let nums = vec![RV::Num(3.0), RV::Num(1.0), RV::Num(2.0), RV::Num(-0.0), RV::Num(0.0)];
    let strs = vec![RV::s("b"), RV::s("a"), RV::s("\u{e9}"), RV::s("")];
    lists.extend(words(&strs, 3));
    let nested = vec![RV::List(vec![]), RV::List(vec![RV::Num(1.0)]), RV::List(vec![RV::Num(1.0), RV::Num(2.0)]), RV::Num(1.0)];
    lists.extend(words(&nested, 3));
    // long lists: every word of length 1..k over the mixed and the numeric alphabets, periodically extended
    let long_lens: &[usize] = if thorough { &[6, 9, 16, 20, 21, 22, 25, 32, 40] } else { &[7, 21, 22, 40] };
    for w in words(&alpha, if thorough { 4 } else { 3 }).into_iter().chain(words(&nums, 3)).chain(words(&stab, 3)).filter(|w| !w.is_empty()) {
        for &n in long_lens {
            lists.push(extend_periodic(&w, n));
        }
    }
    lists.sort_by_key(|l| RV::List(l.clone()).canon());
    lists.dedup_by_key(|l| RV::List(l.clone()).canon());
    par_for_ctx(ctx, lists.len(), |i| {
        let l = &lists[i];
        let mut sess = Session::new();
        sess.run(PRELUDE);
        let lsrc = rv_src(&RV::List(l.clone()));
        let o = sess.run(&format!("l = {}", lsrc));
        if !o.is_ok() {
            ctx.machinery_error(format!("cannot bind subject {}: {:?}", lsrc, o));
            return;
        }
        ctx.nontrivial(&lsrc);
        run_laws(ctx, &mut sess, &lsrc, list_laws(l));
        check_sort(ctx, &mut sess, l, &lsrc);
        check_fractional_index(ctx, &mut sess, l, "l", &format!("l = {}", lsrc));
    });
    // ---- size ladder: long lists built by a short expression (so that the subject stays readable),
    // with the same laws; sizes sit around powers of two and of ten, where implementations switch
    // algorithms, grow buffers or hit fixed limits
    {
        let sizes: &[usize] = if thorough { &[100, 255, 256, 257, 1000, 1023, 1024, 1025, 4096, 4097, 10000, 65535, 65536, 65537] } else { &[257, 1025] };
        let mut ladder: Vec<(String, Vec<RV>)> = vec![];
        for &n in sizes {
            ladder.push((format!("range({}) via (i => (7 * i + 3) % 11)", n), (0..n).map(|i| RV::Num(((7 * i + 3) % 11) as f64)).collect()));
            let cyc = [RV::Num(3.0), RV::s("a"), RV::Null, RV::Num(1.0), RV::List(vec![RV::Num(0.0)])];
            ladder.push((format!("range({}) via (i => [3, \"a\", null, 1, [0]][i % 5])", n), (0..n).map(|i| cyc[i % 5].clone()).collect()));
            ladder.push((format!("range({}) via (i => {} - i)", n, n), (0..n).map(|i| RV::Num((n - i) as f64)).collect()));
        }
        // the same heap object several times in one list, with and without a NaN inside it (an object that
        // holds a NaN is not .== to itself: every occurrence is a class of its own)
        {
            let nan = f64::NAN;
            let xn = RV::List(vec![RV::Num(nan)]);
            let rn = RV::Rec(vec![("k".to_string(), RV::Num(nan))]);
            let xs = RV::List(vec![RV::Num(1.0), RV::s("a")]);
            ladder.push(("[xn, xn]".into(), vec![xn.clone(), xn.clone()]));
            ladder.push(("[xn, 1, xn, 1]".into(), vec![xn.clone(), RV::Num(1.0), xn.clone(), RV::Num(1.0)]));
            ladder.push(("[rn, rn, xn]".into(), vec![rn.clone(), rn.clone(), xn.clone()]));
            ladder.push(("[[xn], [xn], [xs], [xs]]".into(), vec![RV::List(vec![xn.clone()]), RV::List(vec![xn.clone()]), RV::List(vec![xs.clone()]), RV::List(vec![xs.clone()])]));
            ladder.push(("concat([xn, xs], [xn, xs])".into(), vec![xn.clone(), xs.clone(), xn.clone(), xs.clone()]));
            ladder.push(("[xs, xs, xn, [1, \"a\"]]".into(), vec![xs.clone(), xs.clone(), xn.clone(), xs.clone()]));
            ladder.push(("[0/0, 0/0, 1]".into(), vec![RV::Num(nan), RV::Num(nan), RV::Num(1.0)]));
        }
        // depth ladder: elements that are equal down to a deep nesting level and differ below it
        let nest = |x: f64, d: usize| -> RV {
            let mut v = RV::Num(x);
            for _ in 0..d {
                v = RV::List(vec![v]);
            }
            v
        };
        for &d in if thorough { &[5usize, 16, 31, 32, 33, 34, 40, 63, 64, 65, 100, 129][..] } else { &[33usize, 65][..] } {
            let l = vec![nest(2.0, d), nest(1.0, d), nest(3.0, d), nest(1.0, d), nest(0.0, d)];
            ladder.push((rv_src(&RV::List(l.clone())), l));
        }
        par_for_ctx(ctx, ladder.len(), |i| {
            let (src, l) = &ladder[i];
            let mut sess = Session::new();
            sess.run(PRELUDE);
            let subj = format!("l = {}", src);
            let o = sess.run(&subj);
            if !o.is_ok() {
                ctx.machinery_error(format!("cannot bind subject {}: {:?}", src, o));
                return;
            }
            ctx.nontrivial(&subj);
            ctx.outcome("size-ladder-list");
            run_laws(ctx, &mut sess, &subj, list_laws(l));
            check_sort(ctx, &mut sess, l, &subj);
            check_fractional_index(ctx, &mut sess, l, "l", &subj);
        });
    }
    // ---- strings
    let mut strings: Vec<String> = sigma_strings(if thorough { 3 } else { 2 });
    strings.extend(["hello", "a,b,,c", "abcabc", " x ", "\u{e9}a", "a\u{e9}", "na\u{ef}ve caf\u{e9}", "\u{1f600}\u{1f600}a", "e\u{301}e\u{301}"].iter().map(|s| s.to_string()));
    par_for_ctx(ctx, strings.len(), |i| {
        let s = &strings[i];
        let mut sess = Session::new();
        let subj = format!("s = {}", str_src(s));
        let o = sess.run(&subj);
        if !o.is_ok() {
            ctx.machinery_error(format!("cannot bind subject {:?}: {:?}", s, o));
            return;
        }
        ctx.nontrivial(&subj);
        run_laws(ctx, &mut sess, &subj, string_laws(s));
        let ch: Vec<RV> = s.chars().map(|c| RV::Str(c.to_string())).collect();
        check_fractional_index(ctx, &mut sess, &ch, "s", &subj);
    });
    // ---- size ladder: long strings built by a short expression
    {
        let sizes: &[usize] = if thorough { &[100, 255, 256, 257, 1000, 1023, 1024, 1025, 4096, 4097, 65536, 65537] } else { &[257, 1025] };
        let pattern: Vec<char> = "ab,\u{e9}\u{1f600} x".chars().collect();
        let mut jobs: Vec<(String, String)> = vec![];
        for &n in sizes {
            let text: String = (0..n).map(|i| pattern[i % pattern.len()]).collect();
            // subject: the pattern repeated and cut to n characters
            let reps = n / pattern.len() + 1;
            jobs.push((format!("s = slice(join(range({}) via (i => {}), \"\"), 0, {})", reps, str_src(&pattern.iter().collect::<String>()), n), text));
        }
        par_for_ctx(ctx, jobs.len(), |i| {
            let (subj, text) = &jobs[i];
            let mut sess = Session::new();
            let o = sess.run(subj);
            if !o.is_ok() {
                ctx.machinery_error(format!("cannot bind subject {}: {:?}", subj, o));
                return;
            }
            // the subject itself must be the intended text (it is built with join / slice)
            let chk = sess.run(&format!("s == {}", str_src(text)));
            if chk != Outcome::Ok("true".into()) {
                ctx.violation(Violation { kind: "str-build".into(), class: "non-ascii-string".into(), input: subj.clone(), expected: "the pattern repeated and cut".into(), observed: chk.cmp_key(), case: json!({"subject": subj, "program": "len(s)"}) });
                return;
            }
            ctx.nontrivial(subj);
            ctx.outcome("size-ladder-string");
            run_laws(ctx, &mut sess, subj, long_string_laws(text));
        });
    }
    // ---- records
    let keys = ["a", "b", "a b", ""];
    let vals = vec![RV::Num(1.0), RV::Null, RV::List(vec![RV::Num(2.0)])];
    let mut records: Vec<Vec<(String, RV)>> = vec![vec![]];
    for klen in 1..=3 {
        for ks in words(&keys, klen).into_iter().filter(|w| w.len() == klen) {
            let mut distinct = ks.clone();
            distinct.sort();
            distinct.dedup();
            if distinct.len() != ks.len() {
                continue;
            }
            for vs in words(&vals, klen).into_iter().filter(|w| w.len() == klen) {
                records.push(ks.iter().map(|k| k.to_string()).zip(vs.into_iter()).collect());
            }
        }
    }
    // wide records (sizes where a map implementation may change representation), keys in a
    // non-sorted order
    for n in if thorough { vec![9usize, 16, 17, 21, 33, 64, 65, 257] } else { vec![17, 65] } {
        let stride = if n % 7 == 0 { 5 } else { 7 };
        records.push((0..n).map(|i| (format!("k{}", (i * stride + 3) % n), if i % 3 == 0 { RV::Null } else { RV::Num(i as f64) })).collect());
    }
    par_for_ctx(ctx, records.len(), |i| {
        let r = &records[i];
        let mut sess = Session::new();
        let subj = format!("r = {}", rv_src(&RV::Rec(r.clone())));
        let o = sess.run(&subj);
        if !o.is_ok() {
            ctx.machinery_error(format!("cannot bind subject {}: {:?}", subj, o));
            return;
        }
        ctx.nontrivial(&subj);
        run_laws(ctx, &mut sess, &subj, record_laws(r));
    });
    // ---- range
    for a in -3i64..=4 {
        for b in a..=a + 5 {
            let prog = format!("range({}, {})", if a < 0 { format!("(-{})", -a) } else { a.to_string() }, if b < 0 { format!("(-{})", -b) } else { b.to_string() });
            let exp = RV::List((a..b).map(|x| RV::Num(x as f64)).collect());
            let out = eval_fresh(&prog);
            ctx.count(1);
            ctx.outcome("range");
            if out != Outcome::Ok(exp.canon()) {
                ctx.violation(Violation { kind: "range".into(), class: "range".into(), input: prog.clone(), expected: exp.canon(), observed: out.cmp_key(), case: json!({"subject": "x = 0", "program": prog}) });
            }
        }
    }
    for n in 0..6 {
        let prog = format!("range({})", n);
        let exp = RV::List((0..n).map(|x| RV::Num(x as f64)).collect());
        let out = eval_fresh(&prog);
        ctx.count(1);
        if out != Outcome::Ok(exp.canon()) {
            ctx.violation(Violation { kind: "range".into(), class: "range".into(), input: prog.clone(), expected: exp.canon(), observed: out.cmp_key(), case: json!({"subject": "x = 0", "program": prog}) });
        }
    }
    ctx.set("lists", json!(lists.len()));
    ctx.set("strings", json!(strings.len()));
    ctx.set("records", json!(records.len()));
    ctx.sample(json!({"subject": "l = [1, \"a\", null]", "laws": ["sort(l)", "unique(l)", "flatten(chunk(l, 2))", "l[(-1)]"]}));
    ctx.sample(json!({"subject": "s = \"\u{e9}a\"", "laws": ["len(s)", "head(s) + tail(s)", "slice(s, 0, 1)", "join(split(s, \"a\"), \"a\")"]}));
    ctx.sample(json!({"subject": "r = {a: 1, [\"a b\"]: null}", "laws": ["keys(r)", "entries(r)", "r.a"]}));
    for t in ["sort-comparable", "sort-incomparable", "sort_by-elem-comparable", "group_by-checked", "str-slice", "rec-index", "flatten-chunk", "index"] {
        ctx.require_outcome(t, 50);
    }
    ctx.assume("non-integer and out-of-range slice arguments are outside the statement (C01 covers crashes)");
    finish(
        ctx,
        "exploration",
        "every list of length <= 4/5 over a mixed 6-value alphabet, a stability alphabet (0/-0, [0]/[-0]), string and nested alphabets, plus periodic extensions to 40; every string of length <= 2/3 over the 24-code-point alphabet plus words; every record over 4 keys x 3 values up to 3 entries; each subject bound once in a session and every law program evaluated against a harness-computed reference value; distinct = distinct subjects",
        true,
        None,
    )
}
