//! C11 — scalar operator semantics and the broadcasting law.

use crate::alpha::*;
use crate::common::*;
use blots_core::ast::BinaryOp;
use serde_json::{Value as J, json};
use std::cmp::Ordering;

const OPS: [(&str, BinaryOp); 17] = [
    ("+", BinaryOp::Add),
    ("-", BinaryOp::Subtract),
    ("*", BinaryOp::Multiply),
    ("/", BinaryOp::Divide),
    ("%", BinaryOp::Modulo),
    ("^", BinaryOp::Power),
    ("==", BinaryOp::Equal),
    ("!=", BinaryOp::NotEqual),
    ("<", BinaryOp::Less),
    ("<=", BinaryOp::LessEq),
    (">", BinaryOp::Greater),
    (">=", BinaryOp::GreaterEq),
    ("&&", BinaryOp::And),
    ("and", BinaryOp::NaturalAnd),
    ("||", BinaryOp::Or),
    ("or", BinaryOp::NaturalOr),
    ("??", BinaryOp::Coalesce),
];

const DOT_OPS: [&str; 6] = [".==", ".!=", ".<", ".<=", ".>", ".>="];

/// What the statement fixes for one scalar operation.
#[derive(Debug, Clone, PartialEq)]
enum M {
    Val(RV),
    Fail,
    /// not fixed by the statement (and/or with a boolean left and non-boolean right operand)
    Unspecified,
}

/// Independent model of the scalar operators (an operand that is itself a list is simply a
/// non-number / non-boolean value here: broadcasting is one level deep).
fn scalar_model(op: BinaryOp, a: &RV, b: &RV) -> M {
    use BinaryOp::*;
    match op {
        Add => match (a, b) {
            (RV::Num(x), RV::Num(y)) => M::Val(RV::Num(x + y)),
            (RV::Str(x), RV::Str(y)) => M::Val(RV::Str(format!("{}{}", x, y))),
            _ => M::Fail,
        },
        Subtract | Multiply | Divide | Modulo | Power => match (a, b) {
            (RV::Num(x), RV::Num(y)) => M::Val(RV::Num(match op {
                Subtract => x - y,
                Multiply => x * y,
                Divide => x / y,
                Modulo => x % y,
                Power => x.powf(*y),
                _ => unreachable!(),
            })),
            _ => M::Fail,
        },
        Equal => M::Val(RV::Bool(a.equals(b))),
        NotEqual => M::Val(RV::Bool(!a.equals(b))),
        Less | LessEq | Greater | GreaterEq => match a.compare(b) {
            None => M::Fail,
            Some(o) => M::Val(RV::Bool(match op {
                Less => o == Ordering::Less,
                LessEq => o != Ordering::Greater,
                Greater => o == Ordering::Greater,
                GreaterEq => o != Ordering::Less,
                _ => unreachable!(),
            })),
        },
        And | NaturalAnd | Or | NaturalOr => match (a, b) {
            (RV::Bool(x), RV::Bool(y)) => M::Val(RV::Bool(if matches!(op, And | NaturalAnd) { *x && *y } else { *x || *y })),
            (RV::Bool(_), _) => M::Unspecified,
            _ => M::Fail,
        },
        Coalesce => M::Val(if *a == RV::Null { b.clone() } else { a.clone() }),
        _ => unreachable!(),
    }
}

fn element_pool(thorough: bool) -> Vec<RV> {
    let mut v: Vec<RV> = number_pool(thorough).into_iter().map(RV::Num).collect();
    v.extend([RV::s(""), RV::s("a"), RV::s("b"), RV::Bool(true), RV::Bool(false), RV::Null]);
    v.push(RV::List(vec![RV::Num(1.0)]));
    if thorough {
        v.push(RV::List(vec![]));
        v.push(RV::s("\u{e9}"));
        v.push(RV::Rec(vec![("a".into(), RV::Num(1.0))]));
    }
    v
}

struct Case {
    src: String,
    kind: &'static str,
    expected: Exp,
}

enum Exp {
    /// exact canonical value
    Val(String),
    Fail,
    /// element-wise: each entry Some(canon) / None = must fail; with `unspec` entries taken from
    /// the real scalar evaluation
    Any,
    Bool,
}

fn eval_src(src: &str) -> Outcome {
    eval_fresh(src)
}

pub fn run(ctx: &Ctx, replay: Option<&J>) -> i32 {
    if let Some(r) = replay {
        let src = r["input"].as_str().unwrap_or("");
        let o1 = eval_src(src);
        let o2 = eval_src(src);
        if o1 != o2 {
            eprintln!("replay diverged");
            return 2;
        }
        println!("input: {}\nobserved: {:?}\nexpected: {}", src, o1, r["expected"]);
        let bad = format!("{:?}", o1.cmp_key()) != format!("{:?}", r["expected"].as_str().unwrap_or(""));
        if bad {
            println!("VIOLATION property=C11 replay=<replayed>");
            return 1;
        }
        return 0;
    }
    let thorough = !ctx.quick();
    let pool = element_pool(thorough);
    // further strings for the scalar table and the string-list family below: prefixes, case, digit
    // strings, and characters whose code-point order differs from their UTF-16 code-unit order
    let extra_strings: Vec<RV> = ["ab", "B", "10", "9", "\u{ff5e}", "\u{1f600}", "x\u{ff5e}", "x\u{1f600}", "\u{e9}", "z"].iter().map(|s| RV::s(s)).collect();
    let mut scal_pool: Vec<RV> = pool.iter().filter(|v| !v.is_list()).cloned().collect();
    for e in &extra_strings {
        if !scal_pool.contains(e) {
            scal_pool.push(e.clone());
        }
    }

    // ---- (i) scalar o scalar against the model, and collect the real scalar outcome table
    let mut cases: Vec<Case> = vec![];
    // real scalar outcomes for (op, a, b) over non-list operands: key -> outcome
    let mut scalar_jobs: Vec<(usize, usize, usize)> = vec![];
    for (oi, _) in OPS.iter().enumerate() {
        for ai in 0..scal_pool.len() {
            for bi in 0..scal_pool.len() {
                scalar_jobs.push((oi, ai, bi));
            }
        }
    }
    let scalar_out: Vec<Outcome> = par_map(&scalar_jobs, |(oi, ai, bi)| {
        eval_src(&format!("{} {} {}", scal_pool[*ai].src(), OPS[*oi].0, scal_pool[*bi].src()))
    });
    let mut scalar_table = std::collections::HashMap::new();
    for ((oi, ai, bi), out) in scalar_jobs.iter().zip(scalar_out.iter()) {
        ctx.count(1);
        let (a, b) = (&scal_pool[*ai], &scal_pool[*bi]);
        let m = scalar_model(OPS[*oi].1, a, b);
        let src = format!("{} {} {}", a.src(), OPS[*oi].0, b.src());
        ctx.nontrivial(&src);
        let ok = match (&m, out) {
            (M::Val(v), Outcome::Ok(g)) => &v.canon() == g,
            (M::Fail, Outcome::EvalError(_)) => true,
            (M::Unspecified, Outcome::Ok(_) | Outcome::EvalError(_)) => true,
            _ => false,
        };
        ctx.outcome(&format!("scalar-{}-{}", OPS[*oi].0, if out.is_ok() { "ok" } else { "fail" }));
        if !ok {
            ctx.violation(Violation {
                kind: "scalar-semantics".into(),
                class: format!("op {}", OPS[*oi].0),
                input: src.clone(),
                expected: format!("{:?}", m),
                observed: format!("{:?}", out),
                case: json!({"src": src}),
            });
        }
        scalar_table.insert((*oi, a.canon(), b.canon()), out.clone());
    }

    // element function used by the broadcasting law
    // Some(Some(v)) = value, Some(None) = must fail, None = not fixed by the statement
    let elem = |oi: usize, a: &RV, b: &RV| -> Option<Option<String>> {
        match scalar_model(OPS[oi].1, a, b) {
            M::Val(v) => Some(Some(v.canon())),
            M::Fail => Some(None),
            M::Unspecified => match scalar_table.get(&(oi, a.canon(), b.canon())) {
                Some(Outcome::Ok(g)) => Some(Some(g.clone())),
                Some(_) => Some(None),
                None => None,
            },
        }
    };

    // ---- list families
    let max_full = 2usize;
    let short_lists: Vec<Vec<RV>> = words(&pool, max_full);
    // periodic extensions to lengths 3..8 of every word of length 1..2 over a reduced alphabet
    let reduced: Vec<RV> = if thorough {
        pool.clone()
    } else {
        vec![RV::Num(1.0), RV::Num(f64::NAN), RV::Num(-2.5), RV::s("a"), RV::Bool(true), RV::Null, RV::List(vec![RV::Num(1.0)])]
    };
    let mut long_lists: Vec<Vec<RV>> = vec![];
    for w in words(&reduced, 2).into_iter().filter(|w| !w.is_empty()) {
        for n in 3..=8 {
            long_lists.push(extend_periodic(&w, n));
        }
    }

    let mk_expected = |oi: usize, xs: &[RV], ys: &[RV]| -> Exp {
        let mut out = vec![];
        for (x, y) in xs.iter().zip(ys.iter()) {
            match elem(oi, x, y) {
                Some(Some(c)) => out.push(c),
                Some(None) => return Exp::Fail,
                None => return Exp::Any,
            }
        }
        Exp::Val(format!("[{}]", out.join(", ")))
    };

    // cases are evaluated and judged in batches, so that the thorough tier never holds tens of
    // millions of them at once
    let flush = |cases: &mut Vec<Case>, force: bool| {
        if cases.is_empty() || (!force && cases.len() < 2_000_000) {
            return;
        }
        let cases_now: Vec<Case> = std::mem::take(cases);
        let cases = &cases_now;
        if let Some(c) = cases.first() {
            ctx.sample(json!(c.src));
        }
        let outcomes = par_map(cases, |c| eval_src(&c.src));
    for (c, out) in cases.iter().zip(outcomes.iter()) {
        ctx.count(1);
        ctx.nontrivial(&c.src);
        let ok = match (&c.expected, out) {
            (Exp::Val(v), Outcome::Ok(g)) => v == g,
            (Exp::Fail, Outcome::EvalError(_)) => true,
            (Exp::Bool, Outcome::Ok(g)) => g == "true" || g == "false",
            (Exp::Bool, Outcome::EvalError(_)) => true,
            (Exp::Any, _) => true,
            _ => false,
        };
        ctx.outcome(&format!("{}-{}", c.kind, if out.is_ok() { "ok" } else { "fail" }));
        if !ok {
            ctx.violation(Violation {
                kind: format!("broadcast-{}", c.kind),
                class: c.src.split(' ').find(|t| OPS.iter().any(|(o, _)| o == t) || DOT_OPS.contains(t)).unwrap_or("?").to_string(),
                input: c.src.clone(),
                expected: match &c.expected {
                    Exp::Val(v) => format!("ok:{}", v),
                    Exp::Fail => "eval-error".into(),
                    Exp::Bool => "a boolean or an error".into(),
                    Exp::Any => "any".into(),
                },
                observed: out.cmp_key(),
                case: json!({"src": c.src}),
            });
        }
    }
    };
    // list o scalar, scalar o list
    for (oi, (op, _)) in OPS.iter().enumerate() {
        for l in short_lists.iter().chain(long_lists.iter()) {
            for s in &scal_pool {
                let ls = RV::List(l.clone()).src();
                let ss: Vec<RV> = l.iter().map(|_| s.clone()).collect();
                cases.push(Case { src: format!("{} {} {}", ls, op, s.src()), kind: "list-scalar", expected: mk_expected(oi, l, &ss) });
                cases.push(Case { src: format!("{} {} {}", s.src(), op, ls), kind: "scalar-list", expected: mk_expected(oi, &ss, l) });
            }
            flush(&mut cases, false);
        }
    }
    // quick: length-2 list pairs over the reduced alphabet, length-1 pairs over the whole pool
    let ll_lists: Vec<Vec<RV>> = if thorough {
        short_lists.clone()
    } else {
        let mut v = words(&pool, 1);
        v.extend(words(&reduced, 2).into_iter().filter(|w| w.len() == 2));
        v
    };
    // list o list, equal lengths: all pairs of short lists of equal length; long lists paired by
    // word pairs at each length
    for (oi, (op, _)) in OPS.iter().enumerate() {
        for a in &ll_lists {
            flush(&mut cases, false);
            for b in ll_lists.iter().filter(|b| b.len() == a.len()) {
                cases.push(Case {
                    src: format!("{} {} {}", RV::List(a.clone()).src(), op, RV::List(b.clone()).src()),
                    kind: "list-list",
                    expected: mk_expected(oi, a, b),
                });
            }
        }
        let step = if thorough { 1 } else { 7 };
        for (i, a) in long_lists.iter().enumerate() {
            for b in long_lists.iter().filter(|b| b.len() == a.len()).skip(i % step).step_by(step) {
                cases.push(Case {
                    src: format!("{} {} {}", RV::List(a.clone()).src(), op, RV::List(b.clone()).src()),
                    kind: "list-list",
                    expected: mk_expected(oi, a, b),
                });
            }
        }
        // every mismatched length pair 0..=5 (and 8 vs 7), for two element choices
        for m in 0..=8usize {
            for n in 0..=8usize {
                if m == n {
                    continue;
                }
                for e in [RV::Num(1.0), RV::Null, RV::Bool(true), RV::s("a")] {
                    let a = RV::List(vec![e.clone(); m]);
                    let b = RV::List(vec![e.clone(); n]);
                    cases.push(Case { src: format!("{} {} {}", a.src(), op, b.src()), kind: "length-mismatch", expected: Exp::Fail });
                }
            }
        }
    }
    // ---- size ladder: the broadcasting law on long lists (sizes around powers of two and ten)
    {
        let sizes: &[usize] = if thorough { &[64, 100, 255, 256, 257, 1000, 1024, 1025, 4097] } else { &[257, 1025] };
        let seeds: Vec<Vec<RV>> = words(&reduced, 2).into_iter().filter(|w| !w.is_empty()).step_by(if thorough { 1 } else { 3 }).collect();
        for (oi, (op, _)) in OPS.iter().enumerate() {
            for w in &seeds {
                for &n in sizes {
                    let a = extend_periodic(w, n);
                    // a second list of the same length: the same word rotated by one
                    let mut b = a.clone();
                    b.rotate_left(1);
                    let sc = RV::Num(2.0);
                    let ss: Vec<RV> = a.iter().map(|_| sc.clone()).collect();
                    cases.push(Case { src: format!("{} {} {}", RV::List(a.clone()).src(), op, sc.src()), kind: "list-scalar", expected: mk_expected(oi, &a, &ss) });
                    cases.push(Case { src: format!("{} {} {}", sc.src(), op, RV::List(a.clone()).src()), kind: "scalar-list", expected: mk_expected(oi, &ss, &a) });
                    cases.push(Case { src: format!("{} {} {}", RV::List(a.clone()).src(), op, RV::List(b.clone()).src()), kind: "list-list", expected: mk_expected(oi, &a, &b) });
                    // one element short: must fail whatever the elements are
                    cases.push(Case { src: format!("{} {} {}", RV::List(a.clone()).src(), op, RV::List(b[1..].to_vec()).src()), kind: "length-mismatch", expected: Exp::Fail });
                }
                flush(&mut cases, false);
            }
        }
    }
    // ---- string-list family: every list of length <= 2 over the string alphabet against every string
    // scalar and every equal-length list, for the operators defined on strings
    {
        let mut salpha: Vec<RV> = vec![RV::s(""), RV::s("a"), RV::s("b")];
        salpha.extend(extra_strings.iter().cloned());
        let slists: Vec<Vec<RV>> = words(&salpha, 2).into_iter().filter(|w| !w.is_empty()).collect();
        for (oi, (op, bop)) in OPS.iter().enumerate() {
            if !matches!(bop, BinaryOp::Add | BinaryOp::Equal | BinaryOp::NotEqual | BinaryOp::Less | BinaryOp::LessEq | BinaryOp::Greater | BinaryOp::GreaterEq | BinaryOp::Coalesce) {
                continue;
            }
            for l in &slists {
                for sc in &salpha {
                    let ss: Vec<RV> = l.iter().map(|_| sc.clone()).collect();
                    cases.push(Case { src: format!("{} {} {}", RV::List(l.clone()).src(), op, sc.src()), kind: "list-scalar", expected: mk_expected(oi, l, &ss) });
                    cases.push(Case { src: format!("{} {} {}", sc.src(), op, RV::List(l.clone()).src()), kind: "scalar-list", expected: mk_expected(oi, &ss, l) });
                }
                if thorough || l.len() == 1 {
                    for m in slists.iter().filter(|m| m.len() == l.len()) {
                        cases.push(Case { src: format!("{} {} {}", RV::List(l.clone()).src(), op, RV::List(m.clone()).src()), kind: "list-list", expected: mk_expected(oi, l, m) });
                    }
                }
            }
        }
    }
    // ---- precision family: arithmetic on operands whose results are inexact, so that a different
    // (but mathematically equivalent) formula per shape shows as a bit difference
    {
        let prec: Vec<RV> = [0.1, 0.3, 1.1, 3.0, 10.0, -4.0, 1e160, 1e-160, 7.0, 64.0, 65.0, -0.7, 2.5]
            .iter()
            .map(|x| RV::Num(*x))
            .collect();
        for (oi, (op, bop)) in OPS.iter().enumerate() {
            if !matches!(bop, BinaryOp::Add | BinaryOp::Subtract | BinaryOp::Multiply | BinaryOp::Divide | BinaryOp::Modulo | BinaryOp::Power) {
                continue;
            }
            for a in &prec {
                for b in &prec {
                    let la = vec![a.clone()];
                    let lb = vec![b.clone()];
                    let lab = vec![a.clone(), b.clone()];
                    let lba = vec![b.clone(), a.clone()];
                    cases.push(Case { src: format!("{} {} {}", RV::List(la.clone()).src(), op, b.src()), kind: "list-scalar", expected: mk_expected(oi, &la, &lb) });
                    cases.push(Case { src: format!("{} {} {}", a.src(), op, RV::List(lb.clone()).src()), kind: "scalar-list", expected: mk_expected(oi, &la, &lb) });
                    cases.push(Case { src: format!("{} {} {}", RV::List(lab.clone()).src(), op, RV::List(lba.clone()).src()), kind: "list-list", expected: mk_expected(oi, &lab, &lba) });
                    cases.push(Case { src: format!("{} {} {}", RV::List(lab.clone()).src(), op, b.src()), kind: "list-scalar", expected: mk_expected(oi, &lab, &[b.clone(), b.clone()]) });
                    cases.push(Case { src: format!("{} {} {}", a.src(), op, RV::List(lab.clone()).src()), kind: "scalar-list", expected: mk_expected(oi, &[a.clone(), a.clone()], &lab) });
                }
            }
        }
    }
    // ---- compound arithmetic: `a o1 b o2 c` for every pair of arithmetic operators, over variables and
    // over literals, scalar and broadcast - every operator application rounds to a double on its own
    // (no fused, reordered or extended-precision evaluation whatever the shape of the expression)
    {
        let ar: Vec<(usize, &str, BinaryOp)> = OPS.iter().enumerate().filter(|(_, (_, b))| matches!(b, BinaryOp::Add | BinaryOp::Subtract | BinaryOp::Multiply | BinaryOp::Divide | BinaryOp::Modulo | BinaryOp::Power)).map(|(i, (t, b))| (i, *t, *b)).collect();
        let apply = |op: BinaryOp, a: f64, b: f64| -> f64 {
            match op {
                BinaryOp::Add => a + b,
                BinaryOp::Subtract => a - b,
                BinaryOp::Multiply => a * b,
                BinaryOp::Divide => a / b,
                BinaryOp::Modulo => a % b,
                _ => a.powf(b),
            }
        };
        let vals: Vec<f64> = if thorough { vec![0.1, 0.3, 1.1, 3.0, 10.0, -4.0, 1e160, 1e-160, 7.0, -0.7, 2.5, 1.7976931348623157e308] } else { vec![0.1, 1.1, 3.0, -0.7, 1e160, 1.7976931348623157e308] };
        for &a in &vals {
            for &b in &vals {
                for &c in &vals {
                    let mut items: Vec<String> = vec![];
                    let mut expected: Vec<String> = vec![];
                    for (_, t1, o1) in &ar {
                        for (_, t2, o2) in &ar {
                            let (l1, _) = crate::tgen::spec_level(*o1);
                            let (l2, r2) = crate::tgen::spec_level(*o2);
                            let right_first = l2 > l1 || (l2 == l1 && r2);
                            let want = if right_first { apply(*o1, a, apply(*o2, b, c)) } else { apply(*o2, apply(*o1, a, b), c) };
                            let (sa, sb, sc) = (RV::Num(a).src(), RV::Num(b).src(), RV::Num(c).src());
                            items.push(format!("x {} y {} z", t1, t2));
                            expected.push(RV::Num(want).canon());
                            items.push(format!("{} {} {} {} {}", sa, t1, sb, t2, sc));
                            expected.push(RV::Num(want).canon());
                            items.push(format!("([x] {} y {} z)[0]", t1, t2));
                            expected.push(RV::Num(want).canon());
                        }
                    }
                    let src = format!("x = {}\ny = {}\nz = {}\n[{}]", RV::Num(a).src(), RV::Num(b).src(), RV::Num(c).src(), items.join(", "));
                    cases.push(Case { src, kind: "compound-arithmetic", expected: Exp::Val(format!("[{}]", expected.join(", "))) });
                }
            }
            flush(&mut cases, false);
        }
    }
    // ---- (iii) dot operators never broadcast
    for op in DOT_OPS {
        for a in short_lists.iter().filter(|l| l.len() <= 2) {
            let step = if thorough { 1 } else { 5 };
            for b in short_lists.iter().filter(|l| l.len() <= 2).step_by(step) {
                let (ra, rb) = (RV::List(a.clone()), RV::List(b.clone()));
                let expected = match op {
                    ".==" => Exp::Val(RV::Bool(ra.equals(&rb)).canon()),
                    ".!=" => Exp::Val(RV::Bool(!ra.equals(&rb)).canon()),
                    _ => match ra.compare(&rb) {
                        None => Exp::Fail,
                        Some(o) => Exp::Val(
                            RV::Bool(match op {
                                ".<" => o == Ordering::Less,
                                ".<=" => o != Ordering::Greater,
                                ".>" => o == Ordering::Greater,
                                _ => o != Ordering::Less,
                            })
                            .canon(),
                        ),
                    },
                };
                cases.push(Case { src: format!("{} {} {}", ra.src(), op, rb.src()), kind: "dot-list-list", expected });
            }
            for s in &scal_pool {
                cases.push(Case { src: format!("{} {} {}", RV::List(a.clone()).src(), op, s.src()), kind: "dot-list-scalar", expected: Exp::Bool });
                cases.push(Case { src: format!("{} {} {}", s.src(), op, RV::List(a.clone()).src()), kind: "dot-scalar-list", expected: Exp::Bool });
            }
        }
    }

    // ---- aliased operands: the same heap object on both sides (or as corresponding elements) must
    // give what two separately written copies give - in particular NaN inside it stays unequal to itself
    {
        let nan = RV::Num(f64::NAN);
        let alias_pool: Vec<RV> = vec![
            RV::List(vec![nan.clone()]),
            RV::List(vec![RV::Num(1.0)]),
            RV::List(vec![RV::List(vec![nan.clone()])]),
            RV::List(vec![nan.clone(), RV::Num(1.0)]),
            RV::List(vec![RV::s("a"), RV::Null]),
            RV::Rec(vec![("v".into(), nan.clone())]),
            RV::Rec(vec![("a".into(), RV::Num(1.0))]),
            RV::Rec(vec![("l".into(), RV::List(vec![nan.clone()]))]),
            RV::s("a"),
            nan.clone(),
            RV::Null,
        ];
        let to_exp = |e: Option<Option<String>>| match e {
            Some(Some(c)) => Exp::Val(c),
            Some(None) => Exp::Fail,
            None => Exp::Any,
        };
        for e in &alias_pool {
            let pre = format!("x = {}\n", e.src());
            for (oi, (op, _)) in OPS.iter().enumerate() {
                let whole = match e {
                    RV::List(items) => mk_expected(oi, items, items),
                    _ => to_exp(elem(oi, e, e)),
                };
                cases.push(Case { src: format!("{}x {} x", pre, op), kind: "aliased", expected: whole });
                let l = vec![e.clone(), RV::Num(1.0)];
                cases.push(Case { src: format!("{}[x, 1] {} [x, 1]", pre, op), kind: "aliased", expected: mk_expected(oi, &l, &l) });
                let l3 = vec![e.clone(), e.clone(), e.clone()];
                cases.push(Case { src: format!("{}[x, x, x] {} [x, x, x]", pre, op), kind: "aliased", expected: mk_expected(oi, &l3, &l3) });
                if !e.is_list() {
                    let l2 = vec![RV::Num(2.0), e.clone()];
                    let ee = vec![e.clone(), e.clone()];
                    cases.push(Case { src: format!("{}[2, x] {} x", pre, op), kind: "aliased", expected: mk_expected(oi, &l2, &ee) });
                    cases.push(Case { src: format!("{}x {} [2, x]", pre, op), kind: "aliased", expected: mk_expected(oi, &ee, &l2) });
                }
            }
            for op in DOT_OPS {
                for (lhs, rv) in [("x".to_string(), e.clone()), ("[x]".to_string(), RV::List(vec![e.clone()])), ("{k: x}".to_string(), RV::Rec(vec![("k".into(), e.clone())]))] {
                    let expected = match op {
                        ".==" => Exp::Val(RV::Bool(rv.equals(&rv)).canon()),
                        ".!=" => Exp::Val(RV::Bool(!rv.equals(&rv)).canon()),
                        _ => match rv.compare(&rv) {
                            None => Exp::Fail,
                            Some(o) => Exp::Val(RV::Bool(match op {
                                ".<" => o == Ordering::Less,
                                ".<=" => o != Ordering::Greater,
                                ".>" => o == Ordering::Greater,
                                _ => o != Ordering::Less,
                            }).canon()),
                        },
                    };
                    cases.push(Case { src: format!("{}{} {} {}", pre, lhs, op, lhs), kind: "aliased-dot", expected });
                }
            }
        }
    }

    flush(&mut cases, true);
    for k in ["list-scalar", "scalar-list", "list-list"] {
        ctx.require_outcome(&format!("{}-ok", k), 100);
        ctx.require_outcome(&format!("{}-fail", k), 100);
    }
    ctx.require_outcome("length-mismatch-fail", 100);
    for (op, _) in OPS {
        ctx.require_outcome(&format!("scalar-{}-ok", op), 1);
    }
    ctx.set("element_pool", json!(pool.iter().map(|v| v.src()).collect::<Vec<_>>()));
    ctx.assume("and/or with a boolean left and a non-boolean right operand is not fixed by the statement; there the broadcast result is compared with the evaluator's own scalar result");
    finish(
        ctx,
        "exploration",
        "17 broadcasting operators x {scalar-scalar over pool^2; list-scalar and scalar-list for every list of length <= 2 over the pool and periodic extensions to 3..8; list-list for all equal-length pairs of those; every mismatched length pair 0..8; a size ladder of periodic lists (257, 1025; thorough 64..4097) for list-scalar, scalar-list, list-list and one-short mismatches} plus the six dot operators on lists; every operator on aliased operands (one variable on both sides, as corresponding elements, as scalar and element) over 11 values incl. NaN-carrying lists and records; expected = independent scalar model applied element by element; distinct = distinct source expressions",
        true,
        None,
    )
}
