//! C06 — data survives output -> JSON -> input unchanged.

use crate::alpha::*;
use crate::common::*;
use crate::oracle;
use crate::proc::run_blots;
use blots_core::heap::Heap;
use blots_core::values::SerializableValue as SV;
use indexmap::IndexMap;
use serde_json::{Value as J, json};

/// Structural comparison: numbers by bits, strings and keys by code points, key order kept.
fn sv_same(a: &SV, b: &SV) -> bool {
    match (a, b) {
        (SV::Number(x), SV::Number(y)) => x.to_bits() == y.to_bits(),
        (SV::Bool(x), SV::Bool(y)) => x == y,
        (SV::Null, SV::Null) => true,
        (SV::String(x), SV::String(y)) => x.chars().eq(y.chars()),
        (SV::List(x), SV::List(y)) => x.len() == y.len() && x.iter().zip(y).all(|(p, q)| sv_same(p, q)),
        (SV::Record(x), SV::Record(y)) => {
            x.len() == y.len() && x.iter().all(|(k, v)| y.get(k).map(|w| sv_same(v, w)).unwrap_or(false))
        }
        _ => false,
    }
}

fn leaf_numbers(thorough: bool) -> Vec<f64> {
    let g = double_grid(thorough);
    // a spread of the grid for use inside containers, plus boundaries
    let mut v: Vec<f64> = g.iter().step_by(g.len() / if thorough { 400 } else { 60 }).cloned().collect();
    v.extend([0.0, -0.0, 1.0, -1.0, 0.1, 5e-324, f64::MAX, f64::MIN_POSITIVE, 9007199254740993.0, 1e21, 1e-7, 123456.789, 0.30000000000000004, 1.0000000000000002]);
    v
}

fn key_pool() -> Vec<String> {
    let mut v: Vec<String> = vec!["a".into(), "".into(), "0".into(), "a b".into(), "\u{e9}".into(), "e\u{301}".into(), "k\u{0}".into(), "k".into(), "\"".into(), "\\".into(), "\n".into(), "\u{1f600}".into(), "__blots".into(), "__proto__".into(), "constructor".into()];
    v.extend(sigma_strings(1));
    v.sort();
    v.dedup();
    v
}

/// One direction-1 round trip in process. Returns problems found.
fn round_trip(v: &SV) -> Result<(), String> {
    let mut heap = Heap::new();
    let val = v.to_value(&mut heap).map_err(|e| format!("to_value: {}", e))?;
    let sv1 = SV::from_value(&val, &heap).map_err(|e| format!("from_value: {}", e))?;
    let text = serde_json::to_string(&sv1.to_json()).map_err(|e| format!("to_string: {}", e))?;
    let j: J = serde_json::from_str(&text).map_err(|e| format!("from_str: {} ({})", e, truncate(&text, 80)))?;
    let sv2 = SV::from_json(&j);
    let back = sv2.to_value(&mut heap).map_err(|e| format!("to_value(2): {}", e))?;
    let eq = val.equals(&back, &heap).map_err(|e| format!("equals: {}", e))?;
    if !eq {
        return Err(format!(".== is false after the round trip; json text {}", truncate(&text, 200)));
    }
    if !sv_same(v, &sv2) {
        return Err(format!("structural difference: {} vs {}; json text {}", truncate(&canon_sv(v), 150), truncate(&canon_sv(&sv2), 150), truncate(&text, 150)));
    }
    Ok(())
}

fn rec(pairs: Vec<(String, SV)>) -> SV {
    SV::Record(pairs.into_iter().collect::<IndexMap<_, _>>())
}

fn values(thorough: bool) -> Vec<SV> {
    let nums = leaf_numbers(thorough);
    let strs = sigma_strings(if thorough { 3 } else { 2 });
    let keys = key_pool();
    let mut leaves: Vec<SV> = vec![SV::Null, SV::Bool(true), SV::Bool(false)];
    leaves.extend(nums.iter().map(|n| SV::Number(*n)));
    leaves.extend(strs.iter().map(|s| SV::String(s.clone())));
    leaves.extend(["", "0", "a b", "\u{e9}", "e\u{301}", "k\u{0}", "line1\nline2", "tab\t", "\u{d7ff}\u{e000}", "\u{10000}\u{10ffff}", "\\u0041", "\\\"", "</script>", "\u{2028}\u{2029}", "\u{feff}bom"].iter().map(|s| SV::String(s.to_string())));
    let mut out = leaves.clone();
    // depth 2: every leaf in a list, in a record under every key
    let small: Vec<SV> = leaves.iter().step_by(leaves.len() / if thorough { 300 } else { 60 } + 1).cloned().collect();
    for l in &leaves {
        out.push(SV::List(vec![l.clone()]));
    }
    for k in &keys {
        for l in &small {
            out.push(rec(vec![(k.clone(), l.clone())]));
        }
    }
    // pairs of keys (order, near-duplicates), mixed lists
    for k1 in &keys {
        for k2 in &keys {
            if k1 != k2 {
                out.push(rec(vec![(k1.clone(), SV::Number(1.0)), (k2.clone(), SV::Number(2.0))]));
            }
        }
    }
    for a in &small {
        for b in small.iter().step_by(3) {
            out.push(SV::List(vec![a.clone(), b.clone()]));
        }
    }
    // depth 3 and 4: containers of containers
    for a in small.iter().step_by(2) {
        out.push(SV::List(vec![SV::List(vec![a.clone()]), rec(vec![("k".into(), a.clone())])]));
        out.push(rec(vec![("outer".into(), rec(vec![("inner".into(), SV::List(vec![a.clone(), SV::Null]))]))]));
        out.push(rec(vec![("z".into(), a.clone()), ("a".into(), SV::List(vec![rec(vec![("b".into(), a.clone()), ("a".into(), SV::Null)])]))]));
    }
    // spines to depth 6
    for a in small.iter().step_by(5) {
        let mut v = a.clone();
        for d in 0..6 {
            v = if d % 2 == 0 { SV::List(vec![v, SV::Number(d as f64)]) } else { rec(vec![(format!("d{}", d), v)]) };
        }
        out.push(v);
    }
    out.push(SV::List(vec![]));
    out.push(rec(vec![]));
    out
}

fn contains_reserved(j: &J) -> bool {
    match j {
        J::Object(o) => o.contains_key("__blots_function") || o.values().any(contains_reserved),
        J::Array(a) => a.iter().any(contains_reserved),
        _ => false,
    }
}

/// JSON documents for direction 2 (as texts, including number spellings serde would not produce).
fn documents(thorough: bool) -> Vec<String> {
    let mut docs: Vec<String> = vec![];
    let number_texts = [
        "0", "-0.0", "-0", "-0e0", "0e0", "0.0e5", "1", "-1", "0.1", "1E2", "1e-2", "1.5e+3", "123456789012345678901234567890", "4.35", "0.30000000000000004", "1.0000000000000002",
        "0.1000000000000000055511151231257827021181583404541015625", "5e-324", "2.2250738585072011e-308", "1.7976931348623157e308", "9007199254740993",
        "18446744073709551615", "18446744073709551616", "-9223372036854775808", "-9223372036854775809", "8.41e21", "1e23", "0.000001", "100000000000000000000",
        "2.4703282292062328e-324", "1.00000000000000011102230246251565404236316680908203125", "1e400", "-1e400", "1e-400",
    ];
    for n in number_texts {
        docs.push(format!("{{\"x\": {}}}", n));
        docs.push(format!("{{\"x\": [{}, {{\"y\": {}}}]}}", n, n));
    }
    let grid = double_grid(thorough);
    for x in grid.iter().step_by(grid.len() / if thorough { 3000 } else { 300 }) {
        docs.push(format!("{{\"x\": {:?}}}", x));
    }
    let string_texts = [
        "\"\"", "\"a\"", "\"\\u00e9\"", "\"\\ud83d\\ude00\"", "\"\\u0000\"", "\"\\n\\t\\r\\b\\f\\\\\\/\\\"\"", "\"e\\u0301\"", "\"\u{e9}\"", "\"\u{1f600}\"", "\"\\u2028\"", "\"\\uffff\"",
        "\"a b\"", "\"//not a comment\"", "\"#k\"", "\"{}\"",
    ];
    // member names that a JSON library may reserve for its own extended number / raw-value forms are
    // ordinary data here
    for k in ["$serde_json::private::Number", "$serde_json::private::RawValue", "$numberLong", "$date", "__proto__"] {
        for v in ["\"12\"", "\"-0\"", "\"abc\"", "12", "[1]", "\"[1, 2]\"", "null"] {
            docs.push(format!("{{\"x\": {{\"{}\": {}}}}}", k, v));
            docs.push(format!("{{\"x\": [{{\"{}\": {}, \"b\": 1}}]}}", k, v));
            docs.push(format!("{{\"{}\": {}}}", k, v));
        }
    }
    for s in string_texts {
        docs.push(format!("{{\"x\": {}}}", s));
        docs.push(format!("{{\"x\": {{{}: {}}}}}", s, s));
    }
    // the reserved key at the *top level* of a document, next to ordinary members: the top-level object is
    // the record of input names, not a value
    for f in ["\"x => x\"", "\"sum\"", "\"(a, b) => a\"", "5", "\"not a function\"", "null"] {
        docs.push(format!("{{\"__blots_function\": {}, \"x\": [5, \"d\"]}}", f));
        docs.push(format!("{{\"x\": {{\"deep\": 1}}, \"__blots_function\": {}}}", f));
    }
    // sizes small alphabets never reach: wide records, long lists, deep nesting, long keys and strings
    for n in if thorough { vec![9usize, 17, 33, 65, 257, 1025] } else { vec![17, 65, 257] } {
        let rec: Vec<String> = (0..n).map(|i| format!("\"k{}\": {}", (i * 7 + 3) % (n + 1), if i % 3 == 0 { "null".to_string() } else { format!("{}.5", i) })).collect();
        docs.push(format!("{{\"x\": {{{}}}}}", rec.join(", ")));
        let list: Vec<String> = (0..n * 4).map(|i| format!("{}", (i as f64) * 0.1 - 7.0)).collect();
        docs.push(format!("{{\"x\": [{}]}}", list.join(", ")));
        let depth = n.min(100);
        docs.push(format!("{{\"x\": {}1{}}}", "[".repeat(depth), "]".repeat(depth)));
        docs.push(format!("{{\"x\": {}1{}}}", "{\"a\": ".repeat(depth), "}".repeat(depth)));
        docs.push(format!("{{\"x\": {{\"{}\": \"{}\"}}}}", "key ".repeat(n), "value \u{e9} ".repeat(n)));
    }
    // raw (unescaped) invisible and special code points inside strings and keys, at the start, in the
    // middle and at the end - and keys that differ only by such a character
    for cp in ['\u{feff}', '\u{200b}', '\u{a0}', '\u{2028}', '\u{2029}', '\u{85}', '\u{fffe}', '\u{fffd}', '\u{ad}', '\u{202e}', '\u{7f}', '\u{e000}', '\u{10ffff}'] {
        docs.push(format!("{{\"x\": [\"{c}a\", \"a{c}b\", \"b{c}\", \"{c}\", {{\"{c}\": \"v1\", \"\": \"v2\", \"k{c}\": \"v3\", \"k\": \"v4\"}}]}}", c = cp));
    }
    // strings and keys made of JSON's own punctuation: any textual pre- or post-processing of the
    // document (comment stripping, trailing-comma leniency, key rewriting) shows here
    let punct = [',', ' ', ']', '}', '[', '{', ':', '"', '\\', 'a', '/'];
    for w in words(&punct, if thorough { 4 } else { 3 }).into_iter().filter(|w| !w.is_empty()) {
        let text: String = w.iter().collect();
        let lit = serde_json::to_string(&text).unwrap();
        docs.push(format!("{{\"x\": [{}, {{{}: {}}}]}}", lit, lit, lit));
    }
    for d in [
        "{\"x\": null}", "{\"x\": true}", "{\"x\": false}", "{\"x\": []}", "{\"x\": {}}", "{\"x\": [[], {}, [[]], {\"a\": {}}]}", "{\"x\": {\"b\": 1, \"a\": 2, \"c\": {\"z\": 1, \"y\": 2}}}",
        "{\"x\": [1, \"a\", null, true, [2, {\"k\": [3]}]]}", "{\"x\": {\"\": 0, \"0\": 1, \"a b\": 2, \"k\\u0000\": 3, \"k\": 4}}", "{ \"x\" : [ 1 , 2 ] }", "{\"x\":1,\"x\":2}",
        "{\"y\": 1}", "{\"x\": {\"__blots\": 1, \"__proto__\": 2}}",
    ] {
        docs.push(d.to_string());
    }
    docs
}

/// Documents for the stdin read-boundary family: (name, document, bytes per write).
fn stdin_jobs(thorough: bool) -> Vec<(String, String, Option<usize>)> {
    let mut jobs: Vec<(String, String, Option<usize>)> = vec![];
    for ch in ["\u{e9}", "\u{20ac}", "\u{1f600}"] {
        let c = match ch {
            "\u{e9}" => '\u{e9}',
            "\u{20ac}" => '\u{20ac}',
            _ => '\u{1f600}',
        };
        for pad in 0..c.len_utf8() {
            let n = (if thorough { 140_000 } else { 70_000 }) / c.len_utf8();
            let body: String = "a".repeat(pad) + &std::iter::repeat(c).take(n).collect::<String>();
            jobs.push((format!("large:{}:pad{}:string", ch, pad), format!("{{\"x\": \"{}\"}}", body), None));
            jobs.push((format!("large:{}:pad{}:key", ch, pad), format!("{{\"x\": {{\"{}\": \"v\"}}}}", body), None));
            let many: Vec<String> = (0..n / 10).map(|_| format!("\"{}\"", std::iter::repeat(c).take(10).collect::<String>())).collect();
            jobs.push((format!("large:{}:pad{}:list", ch, pad), format!("{{\"x\": [\"{}\", {}]}}", "a".repeat(pad), many.join(",")), None));
        }
    }
    for k in 1..=3usize {
        jobs.push((format!("chunked:{}", k), "{\"x\": [\"\u{e9}\u{20ac}\u{1f600}\", {\"\u{1f600}\u{e9}\": \"a\u{20ac}\"}]}".to_string(), Some(k)));
    }
    jobs
}

pub fn run(ctx: &Ctx, replay: Option<&J>) -> i32 {
    if let Some(r) = replay {
        if let Some(doc) = r["case"]["doc"].as_str() {
            let res = run_blots(&["output x = inputs.x".into(), "-i".into(), doc.into()], None, None);
            println!("blots 'output x = inputs.x' -i {:?}\n-> {}", doc, res.describe());
            return 1;
        }
        if let Some(name) = r["case"]["stdin_doc"].as_str() {
            for (n, doc, chunk) in stdin_jobs(true).into_iter().chain(stdin_jobs(false)) {
                if n == name {
                    let res = crate::proc::run_cmd_chunked(&crate::proc::blots_bin(), &["output x = inputs.x".into()], Some(doc.as_bytes()), None, std::time::Duration::from_secs(60), chunk.map(|k| (k, std::time::Duration::from_millis(3))));
                    let same = serde_json::from_str::<J>(&doc).ok() == serde_json::from_str::<J>(res.stdout.trim()).ok();
                    println!("blots 'output x = inputs.x' < {} ({} bytes): exit={:?} echo identical: {}", name, doc.len(), res.code, same);
                    return if same { 0 } else { 1 };
                }
            }
            return 2;
        }
        let j: J = r["case"]["json"].clone();
        let v = SV::from_json(&j);
        println!("value {}: {:?}", canon_sv(&v), round_trip(&v));
        return 1;
    }
    let thorough = !ctx.quick();
    // ---- direction 1, in process
    let vals = values(thorough);
    ctx.set("values", json!(vals.len()));
    par_for_ctx(ctx, vals.len(), |i| {
        let v = &vals[i];
        ctx.count(1);
        ctx.nontrivial(&canon_sv(v));
        ctx.outcome(match v {
            SV::Number(_) => "number",
            SV::String(_) => "string",
            SV::List(_) => "list",
            SV::Record(_) => "record",
            _ => "other",
        });
        match catch(|| round_trip(v)) {
            Ok(Ok(())) => {}
            Ok(Err(e)) => ctx.violation(Violation {
                kind: "round-trip".into(),
                class: match v {
                    SV::Number(_) => "number".into(),
                    SV::String(_) => "string".into(),
                    SV::List(_) => "list".into(),
                    SV::Record(_) => "record".into(),
                    _ => "scalar".into(),
                },
                input: truncate(&canon_sv(v), 300),
                expected: "equal (.==) and structurally identical after output -> JSON -> input".into(),
                observed: e,
                case: json!({"json": v.to_json()}),
            }),
            Err(p) => ctx.violation(Violation { kind: "round-trip-panic".into(), class: "panic".into(), input: truncate(&canon_sv(v), 300), expected: "no panic".into(), observed: p, case: json!({"json": v.to_json()}) }),
        }
    });
    // ---- direction 1 through two real processes (chain), direction 2 through the real CLI
    let docs = documents(thorough);
    ctx.set("documents", json!(docs.len()));
    let results: Vec<(String, Option<(String, String)>)> = par_map(&docs, |doc| {
        let r1 = run_blots(&["output x = inputs.x".into(), "-i".into(), doc.clone()], None, None);
        if r1.code != Some(0) {
            return (r1.describe(), None);
        }
        let r2 = run_blots(&["output x = inputs.x".into()], Some(r1.stdout.as_bytes()), None);
        (String::new(), Some((r1.stdout.trim().to_string(), if r2.code == Some(0) { r2.stdout.trim().to_string() } else { format!("<stage 2 failed: {}>", r2.describe()) })))
    });
    // ---- the environment's answers on the stdin path: where the reader's `read` calls end.
    // (a) documents larger than every plausible read buffer (512 B .. 64 KiB) whose multi-byte
    //     characters sit at every phase relative to every power-of-two offset;
    // (b) a short document delivered 1, 2, 3 bytes at a time, so that every read ends inside a character
    {
        let jobs = stdin_jobs(thorough);
        let outs: Vec<crate::proc::CliResult> = par_map(&jobs, |(_, doc, chunk)| {
            crate::proc::run_cmd_chunked(&crate::proc::blots_bin(), &["output x = inputs.x".into()], Some(doc.as_bytes()), None, std::time::Duration::from_secs(60), chunk.map(|k| (k, std::time::Duration::from_millis(3))))
        });
        for ((name, doc, _), r) in jobs.iter().zip(outs.iter()) {
            ctx.count(1);
            ctx.nontrivial(name);
            ctx.outcome("stdin-read-boundaries");
            // the echo must be the same JSON value: compare parsed documents (strings only, no numbers involved beyond 1)
            let want: Option<J> = serde_json::from_str(doc).ok();
            let got: Option<J> = serde_json::from_str(r.stdout.trim()).ok();
            if r.code != Some(0) || want.is_none() || want != got {
                let at = want.as_ref().zip(got.as_ref()).map(|(w, g)| first_difference(&w.to_string(), &g.to_string())).unwrap_or_default();
                ctx.violation(Violation {
                    kind: "stdin-read-boundary".into(),
                    class: name.split(':').next().unwrap_or("stdin").to_string(),
                    input: format!("{} ({} bytes on stdin)", name, doc.len()),
                    expected: "output x = inputs.x reproduces the document".into(),
                    observed: format!("exit={:?} {} stderr={}", r.code, at, truncate(&r.stderr, 200)),
                    case: json!({"stdin_doc": name}),
                });
            }
        }
    }
    // ---- the same chain through an --output file that already holds a longer document from an earlier
    // run (the environment's answer for the state of the path), read back on stdin
    {
        let subset: Vec<&String> = docs.iter().filter(|d| d.len() < 400 && !d.contains("e400")).step_by(if thorough { 5 } else { 25 }).collect();
        let outs: Vec<(String, String, String)> = par_map(&subset, |doc| {
            let path = crate::proc::scratch_file("c06-out");
            let _ = std::fs::write(&path, format!("{{\"x\": \"{}\"}}\n", "an earlier, longer document ".repeat(40)));
            let r1 = run_blots(&["output x = inputs.x".into(), "-i".into(), (*doc).clone(), "-o".into(), path.clone()], None, None);
            let written = std::fs::read(&path).unwrap_or_default();
            let r2 = run_blots(&["output x = inputs.x".into()], Some(&written), None);
            let _ = std::fs::remove_file(&path);
            let direct = run_blots(&["output x = inputs.x".into(), "-i".into(), (*doc).clone()], None, None);
            (format!("{:?}/{:?}", r1.code, r2.code), r2.stdout.trim().to_string(), direct.stdout.trim().to_string())
        });
        for (doc, (codes, via_file, direct)) in subset.iter().zip(outs.iter()) {
            ctx.count(3);
            ctx.outcome("cli-output-file-chain");
            // whatever the direct run prints (success or not), the run through the file must print the same
            if via_file != direct {
                ctx.violation(Violation {
                    kind: "cli-output-file-chain".into(),
                    class: "cli".into(),
                    input: (*doc).clone(),
                    expected: truncate(direct, 200),
                    observed: format!("{} (exit codes {})", truncate(via_file, 200), codes),
                    case: json!({"doc": doc}),
                });
            }
        }
    }
    let mut requests = vec![];
    let mut req_docs = vec![];
    for (doc, (err, res)) in docs.iter().zip(results.iter()) {
        ctx.count(2);
        ctx.nontrivial(doc);
        let parsed: Option<J> = serde_json::from_str(doc).ok();
        let representable = !doc.contains("e400");
        match res {
            None => {
                if representable {
                    ctx.violation(Violation { kind: "cli-input-rejected".into(), class: "cli".into(), input: doc.clone(), expected: "exit 0".into(), observed: err.clone(), case: json!({"doc": doc}) });
                }
            }
            Some((out1, out2)) => {
                ctx.outcome("cli-document");
                if out1 != out2 {
                    ctx.violation(Violation { kind: "cli-chain-unstable".into(), class: "cli".into(), input: doc.clone(), expected: out1.clone(), observed: out2.clone(), case: json!({"doc": doc}) });
                }
                if let Some(p) = &parsed {
                    // (only the member x is echoed: the reserved key matters where it sits inside x)
                    if p.get("x").map(contains_reserved).unwrap_or(false) || !representable {
                        continue;
                    }
                    // expected document: {"x": <inputs.x or null>}
                    let want = json!({"x": p.get("x").cloned().unwrap_or(J::Null)});
                    let _ = want;
                    let want_text = match p.get("x") {
                        Some(_) => doc.clone(),
                        None => "{\"x\": null}".to_string(),
                    };
                    // only the "x" member is echoed: compare {"x": ...} of both sides
                    requests.push(format!("JSONEQ {}\t{}", project_x(&want_text), out1));
                    req_docs.push(doc.clone());
                }
            }
        }
    }
    match oracle::ask(&requests) {
        Err(e) => ctx.machinery_error(format!("oracle failed: {}", e)),
        Ok(answers) => {
            for ((req, doc), a) in requests.iter().zip(req_docs.iter()).zip(answers.iter()) {
                if a != "ok" {
                    ctx.violation(Violation {
                        kind: "cli-echo-differs".into(),
                        class: "cli".into(),
                        input: doc.clone(),
                        expected: "output x = inputs.x reproduces the document (JSON equality, numbers as doubles)".into(),
                        observed: format!("{} ({})", req.split('\t').nth(1).unwrap_or(""), a),
                        case: json!({"doc": doc}),
                    });
                }
            }
        }
    }
    for v in vals.iter().step_by(vals.len() / 5 + 1) {
        ctx.sample(json!({"value": v.to_json()}));
    }
    ctx.sample(json!({"document": docs[3], "program": "output x = inputs.x"}));
    for t in ["number", "string", "list", "record"] {
        ctx.require_outcome(t, 50);
    }
    ctx.require_outcome("cli-document", 100);
    ctx.set("trusted_base", json!(["/verif/lib/oracle.py (python json + float: correctly rounded reference for JSON numbers)"]));
    ctx.assume("objects containing the reserved key __blots_function are excluded, as the statement says; JSON numbers beyond the double range (1e400) have no double value and are excluded from the echo comparison");
    finish(
        ctx,
        "exploration",
        "direction 1: every leaf (grid spread of finite doubles incl. -0, 5e-324, f64::MAX, 2^53+1; every string of length <= 2/3 over the 24-code-point alphabet plus BOM / surrogate-boundary / escape-looking strings; booleans, null), each leaf in a list and under every key of a 39-key pool (empty, numeric-looking, composed/decomposed, trailing NUL, quotes, __proto__), every ordered key pair, leaf pairs, depth-3/4 nestings and depth-6 spines: value -> from_value -> to_json -> text -> from_json -> to_value, compared by .== in one heap and structurally by bits / code points; direction 2: documents (number spellings incl. 17+ digits, exponents, > 2^64 integers; escapes; nested, duplicate keys; every string of length <= 3/4 over JSON's own punctuation as value and key) through the real `blots 'output x = inputs.x' -i doc` and a second process reading the first one's stdout, compared by an independent JSON oracle; an --output file that already holds a longer document, read back on stdin (a spread of the documents); stdin read boundaries: 70/140 KB documents (string, key, list of strings) of 2-, 3- and 4-byte characters at every phase relative to every power-of-two offset, and a short document delivered 1, 2 and 3 bytes at a time; distinct = distinct values / documents",
        true,
        None,
    )
}

/// Reduce a document text to `{"x": <member x>}` textually via serde (numbers keep their text
/// because the comparison is done by the oracle on the original spelling when possible).
fn first_difference(a: &str, b: &str) -> String {
    let (ac, bc): (Vec<char>, Vec<char>) = (a.chars().collect(), b.chars().collect());
    let i = ac.iter().zip(bc.iter()).position(|(x, y)| x != y).unwrap_or(ac.len().min(bc.len()));
    let show = |v: &Vec<char>| v.iter().skip(i.saturating_sub(3)).take(8).collect::<String>();
    format!("first difference at character {}: expected ...{:?}... observed ...{:?}...", i, show(&ac), show(&bc))
}

fn project_x(doc: &str) -> String {
    // keep the original text when the document has only the member x (the common case)
    match serde_json::from_str::<J>(doc) {
        Ok(J::Object(o)) if o.len() == 1 && o.contains_key("x") => doc.to_string(),
        Ok(J::Object(o)) => json!({"x": o.get("x").cloned().unwrap_or(J::Null)}).to_string(),
        _ => doc.to_string(),
    }
}
