//! C15 — aggregates equal their mathematical definitions in both calling conventions.

use crate::alpha::*;
use crate::common::*;
use serde_json::{Value as J, json};
use std::collections::HashMap;

const AGGS: [&str; 6] = ["sum", "prod", "avg", "min", "max", "median"];
const PS: [f64; 13] = [0.0, 0.5, 1.0, 10.0, 25.0, 33.3, 50.0, 66.7, 75.0, 90.0, 99.0, 99.5, 100.0];

pub fn parse_num_list(canon: &str) -> Option<Vec<f64>> {
    let inner = canon.strip_prefix('[')?.strip_suffix(']')?;
    if inner.is_empty() {
        return Some(vec![]);
    }
    inner
        .split(", ")
        .map(|t| {
            if t == "NaN" {
                Some(f64::NAN)
            } else {
                let (_, bits) = t.split_once('#')?;
                u64::from_str_radix(bits, 16).ok().map(f64::from_bits)
            }
        })
        .collect()
}

fn same_bits(a: f64, b: f64) -> bool {
    a.to_bits() == b.to_bits() || (a.is_nan() && b.is_nan())
}

fn program(l: &[f64]) -> String {
    let lit = RV::List(l.iter().map(|x| RV::Num(*x)).collect()).src();
    let args = l.iter().map(|x| num_src(*x)).collect::<Vec<_>>().join(", ");
    let mut items = vec![];
    for a in AGGS {
        items.push(format!("{}(l)", a));
        items.push(format!("{}(...l)", a));
        items.push(format!("{}({})", a, args));
    }
    items.push("sum(l) / len(l)".to_string());
    for p in PS {
        items.push(format!("percentile(l, {})", num_src(p)));
    }
    format!("l = {}\n[{}]", lit, items.join(", "))
}

struct Res {
    list: Vec<f64>,
    vals: Option<Vec<f64>>,
    err: Option<String>,
}

fn check_one(ctx: &Ctx, r: &Res) {
    let l = &r.list;
    let n = l.len();
    let lit = RV::List(l.iter().map(|x| RV::Num(*x)).collect()).src();
    let viol = |kind: &str, exp: String, obs: String| {
        ctx.violation(Violation {
            kind: kind.to_string(),
            class: format!("len{}", n.min(6)),
            input: lit.clone(),
            expected: exp,
            observed: obs,
            case: json!({"list": l.iter().map(|x| num_src(*x)).collect::<Vec<_>>()}),
        });
    };
    let vals = match &r.vals {
        Some(v) => v,
        None => {
            viol("aggregate-fails", "every aggregate of a non-empty number list succeeds".into(), format!("{:?}", r.err));
            return;
        }
    };
    let g = |agg: usize, conv: usize| vals[agg * 3 + conv];
    // calling conventions agree bit for bit
    for (ai, a) in AGGS.iter().enumerate() {
        if !same_bits(g(ai, 0), g(ai, 1)) || !same_bits(g(ai, 0), g(ai, 2)) {
            viol("calling-convention", format!("{}(l) = {}(...l) = {}(x1..xn)", a, a, a), format!("{} / {} / {}", g(ai, 0), g(ai, 1), g(ai, 2)));
        }
    }
    let (sum, prod, avg, min, max, median) = (g(0, 0), g(1, 0), g(2, 0), g(3, 0), g(4, 0), g(5, 0));
    let sum_over_len = vals[18];
    let pcts = &vals[19..];
    let has_pinf = l.iter().any(|x| *x == f64::INFINITY);
    let has_ninf = l.iter().any(|x| *x == f64::NEG_INFINITY);
    // sum: reference by compensated summation in magnitude order, error bound n*eps*sum|x|
    if has_pinf && has_ninf {
        if !sum.is_nan() {
            viol("sum", "NaN (inf + -inf)".into(), format!("{}", sum));
        }
    } else if (has_pinf || has_ninf) && !l.iter().filter(|x| x.is_finite()).map(|x| x.abs()).sum::<f64>().is_finite() {
        // the finite part may overflow to the opposite infinity first: not fixed by the statement
        ctx.outcome("sum-overflow-unchecked");
    } else if has_pinf || has_ninf {
        let want = if has_pinf { f64::INFINITY } else { f64::NEG_INFINITY };
        if sum != want {
            viol("sum", format!("{}", want), format!("{}", sum));
        }
    } else {
        let abs_sum: f64 = l.iter().map(|x| x.abs()).sum();
        if abs_sum.is_finite() {
            // Neumaier compensated sum as reference
            let mut s = 0.0f64;
            let mut c = 0.0f64;
            for &x in l {
                let t = s + x;
                if s.abs() >= x.abs() {
                    c += (s - t) + x;
                } else {
                    c += (x - t) + s;
                }
                s = t;
            }
            let reference = s + c;
            let bound = (n as f64) * f64::EPSILON * abs_sum + f64::MIN_POSITIVE;
            if !((sum - reference).abs() <= bound) {
                viol("sum", format!("{} +- {}", reference, bound), format!("{}", sum));
            }
            ctx.outcome("sum-checked");
        } else {
            ctx.outcome("sum-overflow-unchecked");
        }
    }
    // avg is sum / count (same arithmetic through the evaluator)
    if !same_bits(avg, sum_over_len) {
        viol("avg", format!("sum(l)/len(l) = {}", sum_over_len), format!("{}", avg));
    }
    // prod: mantissa/exponent reference, only when no partial product leaves the safe range
    {
        let mut m = 1.0f64;
        let mut e: i64 = 0;
        let mut safe = true;
        let mut special = false;
        for &x in l {
            if x == 0.0 || !x.is_finite() {
                special = true;
                break;
            }
            let (fm, fe) = frexp(x);
            m *= fm;
            e += fe;
            let (nm, ne) = frexp(m);
            m = nm;
            e += ne;
            if !(-900..=900).contains(&e) {
                safe = false;
            }
        }
        if special {
            // zero / infinity present: only the obvious cases
            let zeros = l.iter().any(|x| *x == 0.0);
            let infs = l.iter().any(|x| x.is_infinite());
            // (only when no partial product of the non-zero elements can overflow in any order:
            // inf * 0 = NaN is what sequential IEEE multiplication gives then)
            let log_sum: f64 = l.iter().filter(|x| **x != 0.0 && x.abs() > 1.0).map(|x| x.abs().log2()).sum();
            if zeros && !infs && log_sum < 900.0 && l.iter().all(|x| x.abs() < 1e100 || *x == 0.0) && prod != 0.0 {
                viol("prod", "0".into(), format!("{}", prod));
            }
            if zeros && infs && !prod.is_nan() && l.iter().all(|x| x.abs() > 1e-100 || *x == 0.0) {
                viol("prod", "NaN (0 * inf)".into(), format!("{}", prod));
            }
            ctx.outcome("prod-special");
        } else if safe {
            let reference = m * 2f64.powi(e as i32);
            let bound = 2.0 * (n as f64) * f64::EPSILON * reference.abs();
            if !((prod - reference).abs() <= bound) {
                viol("prod", format!("{} +- {}", reference, bound), format!("{}", prod));
            }
            ctx.outcome("prod-checked");
        } else {
            ctx.outcome("prod-range-unchecked");
        }
    }
    // min / max: elements bounding all others
    let is_elem = |v: f64| l.iter().any(|x| *x == v);
    if !is_elem(min) || !l.iter().all(|x| min <= *x) {
        viol("min", "an element <= all others".into(), format!("{}", min));
    }
    if !is_elem(max) || !l.iter().all(|x| max >= *x) {
        viol("max", "an element >= all others".into(), format!("{}", max));
    }
    // median: middle order statistic or mean of the two middle ones
    let mut s = l.clone();
    s.sort_by(|a, b| a.partial_cmp(b).unwrap());
    let want_median = if n % 2 == 1 { s[n / 2] } else { (s[n / 2 - 1] + s[n / 2]) / 2.0 };
    // where the sum of the two middle values leaves the double range, the mean itself is still a double:
    // the statement does not say which of the two an implementation returns, both are accepted
    let overflow_alt = if n % 2 == 0 && want_median.is_infinite() && s[n / 2 - 1].is_finite() && s[n / 2].is_finite() { Some(s[n / 2 - 1] / 2.0 + s[n / 2] / 2.0) } else { None };
    if !(median == want_median || (median.is_nan() && want_median.is_nan()) || overflow_alt == Some(median)) {
        viol("median", format!("{}", want_median), format!("{}", median));
    }
    // percentile: element of l, monotone in p, endpoints
    for (k, &pv) in pcts.iter().enumerate() {
        if !is_elem(pv) {
            viol("percentile-element", format!("an element of the list (p = {})", PS[k]), format!("{}", pv));
        }
        if k > 0 && !(pcts[k - 1] <= pv) {
            viol("percentile-monotone", format!("percentile(l, {}) <= percentile(l, {})", PS[k - 1], PS[k]), format!("{} > {}", pcts[k - 1], pv));
        }
    }
    if pcts[0] != s[0] {
        viol("percentile-0", format!("{}", s[0]), format!("{}", pcts[0]));
    }
    if pcts[PS.len() - 1] != s[n - 1] {
        viol("percentile-100", format!("{}", s[n - 1]), format!("{}", pcts[PS.len() - 1]));
    }
}

fn frexp(x: f64) -> (f64, i64) {
    if x == 0.0 || !x.is_finite() {
        return (x, 0);
    }
    let bits = x.to_bits();
    let exp = ((bits >> 52) & 0x7ff) as i64;
    if exp == 0 {
        // subnormal: scale up first
        let (m, e) = frexp(x * 2f64.powi(64));
        return (m, e - 64);
    }
    let m = f64::from_bits((bits & !(0x7ffu64 << 52)) | (1022u64 << 52));
    (m, exp - 1022)
}

pub fn run(ctx: &Ctx, replay: Option<&J>) -> i32 {
    if let Some(r) = replay {
        let l: Vec<f64> = r["case"]["list"]
            .as_array()
            .map(|a| {
                a.iter()
                    .filter_map(|s| s.as_str())
                    .map(|s| match eval_fresh(s) {
                        Outcome::Ok(c) => parse_num_list(&format!("[{}]", c)).unwrap()[0],
                        _ => f64::NAN,
                    })
                    .collect()
            })
            .unwrap_or_default();
        let src = program(&l);
        let out = eval_fresh(&src);
        println!("program:\n{}\nobserved: {:?}", src, out);
        let res = Res { list: l, vals: if let Outcome::Ok(c) = &out { parse_num_list(c) } else { None }, err: Some(format!("{:?}", out)) };
        check_one(ctx, &res);
        return if ctx.violation_count() > 0 {
            println!("VIOLATION property=C15 replay=<replayed>");
            1
        } else {
            0
        };
    }
    let alphabet = [1.0, 2.0, -3.0, 0.5, 0.0, f64::INFINITY, f64::NEG_INFINITY, 1e308, 1e-308];
    let max_len = ctx.tier.pick(4, 5);
    let mut lists: Vec<Vec<f64>> = words(&alphabet, max_len).into_iter().filter(|w| !w.is_empty()).collect();
    // periodic extensions (reach the >= 21 element sort paths and odd/even long lengths)
    let ext_lens: &[usize] = ctx.tier.pick(&[6, 7, 21, 50][..], &[6, 7, 8, 10, 20, 21, 22, 33, 49, 50][..]);
    let wl = ctx.tier.pick(2, 3);
    for w in words(&alphabet, wl).into_iter().filter(|w| !w.is_empty()) {
        for &n in ext_lens {
            lists.push(extend_periodic(&w, n));
        }
    }
    // a few finite "ordinary" families for the rounding bounds
    for w in words(&[0.1, 0.2, 0.3, 1e16, -1e16, 3.0], 4).into_iter().filter(|w| !w.is_empty()) {
        lists.push(w);
    }
    // the ends of the double range, where halving, doubling or adding is not exact: odd multiples of the
    // smallest subnormal, the smallest normal and its neighbours, the largest doubles
    {
        let tiny = [5e-324, 1.5e-323, 2.5e-323, -5e-324, -1.5e-323, 2.2250738585072014e-308, 2.225073858507201e-308, 0.0, 1.0];
        for w in words(&tiny, ctx.tier.pick(3, 4)).into_iter().filter(|w| !w.is_empty()) {
            lists.push(w);
        }
        let huge = [1.7976931348623157e308, 1.7976931348623155e308, 8.98846567431158e307, -1.7976931348623157e308, 1.0];
        for w in words(&huge, ctx.tier.pick(3, 4)).into_iter().filter(|w| !w.is_empty()) {
            lists.push(w);
        }
    }
    // long lists of distinct values in every affine arrangement i -> (a*i + b) mod n (a coprime to n):
    // partial-selection or partial-sort implementations behave like a full sort only on short,
    // sorted or heavily duplicated input
    {
        fn gcd(a: usize, b: usize) -> usize {
            if b == 0 { a } else { gcd(b, a % b) }
        }
        let lens: &[usize] = ctx.tier.pick(&[12, 17, 18, 20, 33, 64][..], &[8, 12, 16, 17, 18, 19, 20, 21, 22, 24, 32, 33, 34, 49, 50, 64, 65, 128][..]);
        for &n in lens {
            for a in 1..n {
                if gcd(a, n) != 1 {
                    continue;
                }
                let offsets: Vec<usize> = ctx.tier.pick(vec![0, 1, n / 2], (0..n).collect());
                for b in offsets {
                    lists.push((0..n).map(|i| ((a * i + b) % n) as f64 * 0.5 - (n / 4) as f64).collect());
                }
            }
        }
    }
    // size ladder: the same distinct-value arrangements at sizes around powers of two and of ten,
    // for a handful of strides
    {
        fn gcd(a: usize, b: usize) -> usize {
            if b == 0 { a } else { gcd(b, a % b) }
        }
        let sizes: &[usize] = ctx.tier.pick(&[257, 1025][..], &[100, 255, 256, 257, 1000, 1023, 1024, 1025, 4096, 4097, 10001][..]);
        for &n in sizes {
            for a in [1usize, n - 1, 7, 101, n / 2 + 1, n / 3 + 1] {
                if a == 0 || a >= n || gcd(a, n) != 1 {
                    continue;
                }
                for b in [0usize, n / 2] {
                    lists.push((0..n).map(|i| ((a * i + b) % n) as f64 * 0.5 - (n / 4) as f64).collect());
                }
            }
        }
    }
    // before every list, the same thread evaluates a *failing* aggregate call in a session of its own
    // (a rotating one of seven): nothing of a failed call - numbers read before the offending argument,
    // a half-filled buffer - may show in a later result
    const POISON: [&str; 7] = [
        "median([100, 200, \"x\"])", "percentile([1000000, true], 50)", "sum(1, 2, \"a\")", "max([5, null])", "avg(7, 9, [1])", "prod([3, 4, \"z\"])", "min(2, -9, {})",
    ];
    let poison_ix = std::sync::atomic::AtomicUsize::new(0);
    let results: Vec<Res> = par_map(&lists, |l| {
        let src = program(l);
        let k = poison_ix.fetch_add(1, std::sync::atomic::Ordering::Relaxed);
        let _ = eval_fresh(POISON[k % POISON.len()]);
        match eval_fresh(&src) {
            Outcome::Ok(c) => match parse_num_list(&c) {
                Some(v) if v.len() == 19 + PS.len() => Res { list: l.clone(), vals: Some(v), err: None },
                _ => Res { list: l.clone(), vals: None, err: Some(format!("unexpected result {}", c)) },
            },
            other => Res { list: l.clone(), vals: None, err: Some(format!("{:?}", other)) },
        }
    });
    ctx.count(lists.len() * (19 + PS.len()));
    for r in &results {
        check_one(ctx, r);
        ctx.nontrivial(&format!("{:?}", r.list.iter().map(|x| x.to_bits()).collect::<Vec<_>>()));
    }
    // permutation invariance: group by multiset
    let mut groups: HashMap<Vec<u64>, Vec<usize>> = HashMap::new();
    for (i, r) in results.iter().enumerate() {
        let mut k: Vec<u64> = r.list.iter().map(|x| x.to_bits()).collect();
        k.sort();
        groups.entry(k).or_default().push(i);
    }
    let mut perm_groups = 0usize;
    for (_, members) in &groups {
        if members.len() < 2 {
            continue;
        }
        perm_groups += 1;
        let first = &results[members[0]];
        let Some(fv) = &first.vals else { continue };
        for &m in &members[1..] {
            let Some(mv) = &results[m].vals else { continue };
            // exact: min max median percentiles
            let exact_idx: Vec<usize> = (9..18).chain(19..19 + PS.len()).collect();
            for &k in &exact_idx {
                if !(fv[k] == mv[k] || (fv[k].is_nan() && mv[k].is_nan())) {
                    ctx.violation(Violation {
                        kind: "permutation-exact".into(),
                        class: format!("item{}", k),
                        input: format!("{:?} vs {:?}", first.list, results[m].list),
                        expected: format!("{}", fv[k]),
                        observed: format!("{}", mv[k]),
                        case: json!({"list": results[m].list.iter().map(|x| num_src(*x)).collect::<Vec<_>>()}),
                    });
                }
            }
            // up to rounding: sum, avg, prod — covered by the per-list reference bounds whenever
            // those were checked; here only require agreement of NaN-ness / infinity sign when no
            // overflow is possible
        }
    }
    ctx.set("permutation_groups", json!(perm_groups));
    ctx.set("lists", json!(lists.len()));
    for r in results.iter().step_by(results.len() / 6 + 1) {
        ctx.sample(json!({"list": r.list.iter().map(|x| num_src(*x)).collect::<Vec<_>>(), "program": program(&r.list).lines().nth(1)}));
    }
    ctx.require_outcome("sum-checked", 100);
    ctx.require_outcome("prod-checked", 100);
    if perm_groups < 50 {
        ctx.machinery_error(format!("vacuity guard: only {} permutation groups", perm_groups));
    }
    ctx.assume("NaN is not an element (median/percentile of NaN are C01's domain); sum/prod bounds are skipped when the sum of magnitudes or a partial product leaves the double range");
    finish(
        ctx,
        "exploration",
        "all number lists of length 1..4 (quick) / 1..5 (thorough) over a 9-value alphabet plus periodic extensions to 6..50, a rounding family, every list of length <= 3/4 over nine values at the subnormal end and five at the top of the double range, and lists of 12..64 (thorough 8..128) distinct values in every affine arrangement i -> (a*i+b) mod n, and a size ladder (257, 1025; thorough 100..10001 around powers of two and ten) for six strides; per list one program evaluating sum/prod/avg/min/max/median in the three calling conventions and percentile at 13 p values; references computed by the harness on the same doubles; permutation invariance by grouping lists by multiset; each evaluation preceded, on the same thread, by a failing aggregate call in a session of its own; distinct = distinct lists",
        true,
        None,
    )
}
