//! C04 — closures capture definition-time values; calls are call-site independent; arity.
//!
//! State exploration over sessions: definitions (captured values from a pool) followed by the same
//! call placed in every context of a context grammar; plus the full table of parameter-list shapes
//! x argument counts against a 10-line reference model of positional binding.

use crate::common::*;
use serde_json::{Value as J, json};

/// (name, definition lines after `a`/`b` are bound, how many arguments f takes)
fn closures() -> Vec<(&'static str, Vec<&'static str>, usize)> {
    vec![
        ("plain", vec!["f = x => [a, b, x]"], 1),
        ("arith", vec!["f = x => a + x"], 1),
        ("shorthand", vec!["f = x => {a, k: b, x}"], 1),
        ("curried", vec!["g = x => y => [a, x, y, b]", "f = g(7)"], 1),
        ("nested-lambda", vec!["f = x => ((z) => [a, z, x])(b)"], 1),
        ("defined-in-do", vec!["f = do {\n  a2 = a\n  return x => [a2, b, x]\n}"], 1),
        ("do-shadowing-capture", vec!["f = do {\n  a = [a, \"inner\"]\n  return x => [a, x]\n}"], 1),
        ("captures-closure", vec!["g = y => [a, y]", "f = x => [g(x), b]"], 1),
        ("captures-closure-chain", vec!["g = y => [a, y]", "h = z => g([z, b])", "f = x => h(x)"], 1),
        ("self-recursive", vec!["f = x => if typeof(x) == \"number\" and x > 0 then f(x - 1) else [a, x]"], 1),
        ("body-do-local-named-a", vec!["f = x => do {\n  t = a\n  a = x\n  return [t, a, b]\n}"], 1),
        ("inner-param-named-a", vec!["f = x => [a, ((a) => [a, b])(x)]"], 1),
        ("conditional", vec!["f = x => if x == null then a else b"], 1),
        ("uses-inputs", vec!["f = x => [#k, inputs.k, a, x]"], 1),
        ("via-inside", vec!["f = x => ([x, x] via (e => [a, e]))"], 1),
        ("two-args", vec!["f = (x, y) => [a, x, y, b]"], 2),
        ("two-args-fold", vec!["f = (acc, x) => [acc, a, x]"], 2),
        ("predicate", vec!["f = x => x == a"], 1),
        ("captured-list-ops", vec!["l = [a, b]", "f = x => concat(l, [x])"], 1),
        ("data-capture-record", vec!["r = {v: a}", "f = x => [r.v, x]"], 1),
        // a do-block statement that rebinds an outer name in terms of itself, with no other
        // occurrence of that name in the body
        ("do-rebind-from-itself", vec!["f = x => do {\n  a = [a, x]\n  return a\n}"], 1),
        ("do-rebind-from-itself-nested", vec!["f = x => do {\n  r = do {\n    a = [a]\n    return a\n  }\n  return [r, x]\n}"], 1),
        ("inner-lambda-do-rebind", vec!["f = x => do {\n  g = () => do {\n    b = [b, 1]\n    return b\n  }\n  return [g(), x]\n}"], 1),
        ("escaping-closure-do-rebind", vec!["mk = base => do {\n  step = [base]\n  return n => do {\n    step = [step, 3]\n    return [n, base, step]\n  }\n}", "f = mk(a)"], 1),
        ("escaping-closure", vec!["mk = base => do {\n  step = [base, b]\n  return n => [n, base, step]\n}", "f = mk(a)"], 1),
        ("do-rebind-two-args", vec!["f = (x, y) => do {\n  a = [a, x, y]\n  return a\n}"], 2),
        // a nested lambda literal whose parameter is named like a captured name that the enclosing
        // body uses only *after* the literal
        ("nested-lambda-param-then-capture", vec!["f = x => [((a) => [a, b])(x), a]"], 1),
        ("callback-param-then-capture", vec!["f = x => [[x, x] via (a => [a]), a, b]"], 1),
        ("factory-nested-lambda-param-then-capture", vec!["mk = (k) => (v) => [[v] via (k => [k]), k, b]", "f = mk(a)"], 1),
        ("nested-optional-rest-params-then-capture", vec!["f = x => [((a?, ...b) => [a, b])(x), a, b]"], 1),
        // a do-block that is not in tail position assigns a local named like a captured name, and the
        // captured name is read after the block (only there)
        ("do-local-then-later-capture-use", vec!["f = x => [do {\n  a = [x]\n  return a\n}, a, b]"], 1),
        ("cond-do-local-else-capture-use", vec!["f = x => if x == null then do {\n  a = 0\n  return a\n} else [a, x]"], 1),
        ("nested-do-local-then-capture-use", vec!["f = x => do {\n  t = do {\n    b = [x]\n    return b\n  }\n  return [t, b, a]\n}"], 1),
        ("operand-do-local-then-capture-use", vec!["f = x => [do {\n  b = 1\n  return b\n} + 1, [b, a]]"], 1),
        // a parameter named like the function itself (required, optional, rest): the parameter wins
        ("param-named-like-function", vec!["f = f => [a, f]"], 1),
        ("optional-param-named-like-function", vec!["f = (f?) => [a, f]"], 1),
        ("param-named-inputs", vec!["f = inputs => [a, inputs]"], 1),
        // a self-call made after the body's do-block has bound a local named like a captured name: the
        // inner activation starts from the captured value again
        ("self-call-after-do-local", vec!["f = x => do {\n  n = if typeof(x) == \"number\" then x else 0\n  seen = a\n  a = [seen, 1]\n  return if n > 0 then f(n - 1) else [seen, b]\n}"], 1),
        ("self-call-in-nested-do", vec!["f = x => do {\n  n = if typeof(x) == \"number\" then x else 0\n  b = [b]\n  return do {\n    t = a\n    a = 0\n    return if n > 0 then f(n - 1) else [t, b]\n  }\n}"], 1),
        ("self-call-via-callback-after-do-local", vec!["f = x => do {\n  n = if typeof(x) == \"number\" then x else 0\n  seen = a\n  a = [seen, 1]\n  return if n > 0 then ([n - 1] via f)[0] else [seen, b]\n}"], 1),
    ]
}

/// Closures whose top-level value is also known absolutely: (closure name, expected value as an
/// expression over a, b and the argument {A0})
const ABSOLUTE: [(&str, &str); 21] = [
    ("param-named-like-function", "[a, {A0}]"),
    ("optional-param-named-like-function", "[a, {A0}]"),
    ("param-named-inputs", "[a, {A0}]"),
    // (the differential oracle "every context gives the top-level value" cannot see a closure that is
    // wrong in the same way everywhere)
    ("shorthand", "{a: a, k: b, x: {A0}}"),
    ("curried", "[a, 7, {A0}, b]"),
    ("nested-lambda", "[a, b, {A0}]"),
    ("defined-in-do", "[a, b, {A0}]"),
    ("do-shadowing-capture", "[[a, \"inner\"], {A0}]"),
    ("captures-closure", "[[a, {A0}], b]"),
    ("captures-closure-chain", "[a, [{A0}, b]]"),
    ("body-do-local-named-a", "[a, {A0}, b]"),
    ("inner-param-named-a", "[a, [{A0}, b]]"),
    ("via-inside", "[[a, {A0}], [a, {A0}]]"),
    ("data-capture-record", "[a, {A0}]"),
    ("do-rebind-from-itself", "[a, {A0}]"),
    ("nested-lambda-param-then-capture", "[[{A0}, b], a]"),
    ("escaping-closure", "[{A0}, a, [a, b]]"),
    ("do-local-then-later-capture-use", "[[{A0}], a, b]"),
    ("self-call-after-do-local", "[a, b]"),
    ("self-call-in-nested-do", "[a, [b]]"),
    ("self-call-via-callback-after-do-local", "[a, b]"),
];

const AB_POOL: [(&str, &str); 5] = [("1", "2"), ("\"s\"", "[1, 2]"), ("null", "{k: 1}"), ("[0]", "true"), ("max", "[abs, x => x]")];
const ARGS: [&str; 6] = ["2", "\"t\"", "[1]", "null", "true", "{k: 1}"];

/// Contexts: (name, program with {CALL} placeholder, how the top-level value is wrapped)
fn contexts(nargs: usize, thorough: bool) -> Vec<(&'static str, String, &'static str)> {
    let mut v: Vec<(&'static str, String, &'static str)> = vec![
        ("top", "{CALL}".into(), "{V}"),
        ("param-a", "((a) => {CALL})(\"junk\")".into(), "{V}"),
        ("params-a-b", "((a, b) => {CALL})(\"junk\", \"junk2\")".into(), "{V}"),
        ("optional-param-a", "((a?) => {CALL})()".into(), "{V}"),
        ("rest-param-a", "((...a) => {CALL})(1, 2)".into(), "{V}"),
        ("do-local-a", "do {\n  a = \"junk\"\n  return {CALL}\n}".into(), "{V}"),
        ("nested-do", "do {\n  a = \"junk\"\n  return do {\n    b = \"junk2\"\n    return {CALL}\n  }\n}".into(), "{V}"),
        ("do-local-f-args", "do {\n  x = \"junk\"\n  l = \"junk\"\n  g = \"junk\"\n  return {CALL}\n}".into(), "{V}"),
        ("via-callback", "[\"junk\"] via (a => {CALL})".into(), "[{V}]"),
        ("map-callback", "map([\"junk\", \"junk2\"], (a, b) => {CALL})".into(), "[{V}, {V}]"),
        ("into-callback", "\"junk\" into (a => {CALL})".into(), "{V}"),
        ("reduce-callback", "reduce([\"junk\"], (a, b) => {CALL}, 0)".into(), "{V}"),
        ("where-callback", "len([1, 2] where (a => ({CALL}) .== ({CALL})))".into(), "2"),
        ("closure-other-a", "(((a) => (() => {CALL}))(\"other\"))()".into(), "{V}"),
        ("record-value", "{a: \"junk\", v: {CALL}}.v".into(), "{V}"),
        ("list-item", "[a, {CALL}][1]".into(), "{V}"),
        ("conditional-branch", "if true then {CALL} else a".into(), "{V}"),
        // the function reached through another name - in particular one of its own parameter names
        // (a do-block assignment relabels the function value; the parameter must still win inside)
        ("alias-named-like-parameter", "do {\n  x = f\n  y = f\n  acc = f\n  z = f\n  e = f\n  n = f\n  base = f\n  return x({ARGS})\n}".into(), "{V}"),
        ("alias-other-name", "do {\n  other = f\n  return other({ARGS})\n}".into(), "{V}"),
        ("alias-through-parameter", "((x) => x({ARGS}))(f)".into(), "{V}"),
        ("alias-in-list", "[f][0]({ARGS})".into(), "{V}"),
    ];
    // the call placed K frames deep inside a recursive helper whose parameter shadows `a`: every depth
    // up to 300 in the thorough tier, the neighbourhoods of 32 / 64 / 128 / 256 and a few odd ones in quick
    let depths: Vec<usize> = if thorough { (1..=300).collect() } else { vec![1, 2, 31, 32, 33, 37, 62, 63, 64, 65, 100, 127, 128, 129, 200, 255, 256, 257] };
    for k in depths {
        let name: &'static str = Box::leak(format!("deep-call-{}", k).into_boxed_str());
        v.push((name, format!("do {{\n  h = (a, b, n) => if n == 0 then {{CALL}} else h(a, b, n - 1)\n  return h(\"junk\", \"junk2\", {})\n}}", k), "{V}"));
    }
    if nargs == 1 {
        v.extend([
            ("f-as-via-callback", "[{A0}] via f".to_string(), "[{V}]"),
            ("f-as-map-callback", "map([{A0}], f)".to_string(), "[{V}]"),
            ("f-as-into", "{A0} into f".to_string(), "{V}"),
            ("f-as-via-scalar", "({A0}) via f".to_string(), "{VIA_SCALAR}"),
        ]);
    } else {
        v.extend([("f-as-reduce", "reduce([{A1}], f, {A0})".to_string(), "{V}")]);
    }
    v
}

struct Clo {
    name: String,
    defs: Vec<String>,
    nargs: usize,
}

fn all_closures(thorough: bool) -> Vec<Clo> {
    use crate::tgen::*;
    let mut v: Vec<Clo> = closures().into_iter().map(|(n, d, k)| Clo { name: n.to_string(), defs: d.iter().map(|s| s.to_string()).collect(), nargs: k }).collect();
    // generated bodies: every kind alone and every parent x child kind in every slot, over the
    // leaves x (parameter), a, b (captured) and literals
    let mut stats = GenStats::default();
    let kinds = if thorough { all_kinds() } else { representative_kinds() };
    let mut trees = single_slot(&kinds, &kinds, &mut stats);
    for k in all_kinds() {
        if k.is_expr {
            let mut s = LeafSupply::new();
            trees.push(with_leaves(&k, &mut s));
        }
    }
    let mut seen = std::collections::HashSet::new();
    for t in trees {
        let body = rename(&t).full();
        if seen.insert(body.clone()) {
            v.push(Clo { name: format!("generated:{}", crate::c07::shape_class(&t)), defs: vec![format!("f = (x) => ({})", body)], nargs: 1 });
        }
    }
    v
}

/// Map the generator's positional leaf names to x / a / b / literals.
fn rename(t: &crate::tgen::T) -> crate::tgen::T {
    use crate::tgen::*;
    let m = |n: &str| -> T {
        match n {
            "a" | "e" | "i" => T::id("x"),
            "b" | "f" | "j" => T::id("a"),
            "c" | "g" | "m" => T::id("b"),
            "d" => T::num(1.0),
            "h" => T::str("s"),
            _ => T::id("x"),
        }
    };
    fn go(t: &T, m: &dyn Fn(&str) -> T) -> T {
        let b = |x: &T| Box::new(go(x, m));
        match t {
            T::Id(n) => m(n),
            T::Num(_) | T::Str(_) | T::Bool(_) | T::Null | T::Inp(_) => t.clone(),
            T::List(v) => T::List(v.iter().map(|x| go(x, m)).collect()),
            T::Rec(es) => T::Rec(
                es.iter()
                    .map(|e| match e {
                        RE::Kv(k, v) => RE::Kv(k.clone(), go(v, m)),
                        RE::Qkv(k, v) => RE::Qkv(k.clone(), go(v, m)),
                        RE::Dyn(k, v) => RE::Dyn(go(k, m), go(v, m)),
                        RE::Short(_) => RE::Short("a".into()),
                        RE::Spread(v) => RE::Spread(go(v, m)),
                    })
                    .collect(),
            ),
            T::Lam(a, body) => T::Lam(a.clone(), b(body)),
            T::Cond(x, y, z) => T::Cond(b(x), b(y), b(z)),
            T::Do(s, r) => T::Do(s.iter().map(|x| go(x, m)).collect(), b(r)),
            T::Assign(n, v) => T::Assign(n.clone(), b(v)),
            T::Call(f, a) => T::Call(b(f), a.iter().map(|x| go(x, m)).collect()),
            T::Index(x, y) => T::Index(b(x), b(y)),
            T::Field(x, f) => T::Field(b(x), f.clone()),
            T::Bin(op, x, y) => T::Bin(*op, b(x), b(y)),
            T::Neg(x) => T::Neg(b(x)),
            T::Bang(x) => T::Bang(b(x)),
            T::NotW(x) => T::NotW(b(x)),
            T::Fact(x) => T::Fact(b(x)),
            T::Spread(x) => T::Spread(b(x)),
            T::Output(x) => T::Output(b(x)),
        }
    }
    go(t, &m)
}

fn check_closure(ctx: &Ctx, clo: &Clo, ab: usize) {
    // (every depth up to 300 for the hand-written closures; the generated bodies keep the quick depth set)
    let thorough = !ctx.quick() && !clo.name.starts_with("generated:");
    let (cname, defs, nargs) = (&clo.name, &clo.defs, &clo.nargs);
    let (va, vb) = AB_POOL[ab];
    let mut s = Session::with_inputs(&[("k", json!("input-k"))]);
    let mut lines = vec![format!("a = {}", va), format!("b = {}", vb)];
    lines.extend(defs.iter().map(|d| d.to_string()));
    for l in &lines {
        let o = s.run(l);
        if !o.is_ok() {
            ctx.machinery_error(format!("closure {} definition line {:?} failed: {:?}", cname, l, o));
            return;
        }
    }
    for a0 in ARGS {
        for a1 in ARGS.iter().take(if *nargs == 2 { 3 } else { 1 }) {
            let call = if *nargs == 1 { format!("f({})", a0) } else { format!("f({}, {})", a0, a1) };
            let top = s.run(&call);
            ctx.count(1);
            ctx.outcome(if top.is_ok() { "top-ok" } else { "top-fail" });
            if let Some((_, exp)) = ABSOLUTE.iter().find(|(n, _)| n == cname) {
                let want = s.run(&exp.replace("{A0}", a0));
                if want.cmp_key() != top.cmp_key() {
                    ctx.violation(Violation {
                        kind: if cname.contains("param-named") { "parameter-shadowing".into() } else { "absolute-value".into() },
                        class: cname.to_string(),
                        input: format!("{} ;; {}", lines.join(" ; "), call),
                        expected: want.cmp_key(),
                        observed: top.cmp_key(),
                        case: json!({"lines": lines, "program": call, "call": call}),
                    });
                }
            }
            // (between contexts) a refused redefinition must change nothing
            let _ = s.run("a = 99");
            let _ = s.run("f = 1");
            for (xname, template, wrap) in contexts(*nargs, thorough) {
                let arg_text = if *nargs == 1 { a0.to_string() } else { format!("{}, {}", a0, a1) };
                let prog = template.replace("{CALL}", &call).replace("{ARGS}", &arg_text).replace("{A0}", a0).replace("{A1}", a1);
                let got = s.run(&prog);
                ctx.count(1);
                ctx.nontrivial(&format!("{}|{}|{}|{}", cname, ab, xname, call));
                // expected: the top-level outcome, wrapped
                let expected = match &top {
                    Outcome::Ok(v) => {
                        if wrap == "{VIA_SCALAR}" {
                            // `x via f` with a list x maps f over the elements instead
                            if a0.starts_with('[') { None } else { Some(Outcome::Ok(v.clone())) }
                        } else if wrap == "2" {
                            // the where-callback context compares f's result with itself by `.==`;
                            // a NaN inside the value is not equal to itself
                            if v.contains("NaN") { None } else { Some(Outcome::Ok(num_repr(2.0))) }
                        } else {
                            Some(Outcome::Ok(wrap.replace("{V}", v)))
                        }
                    }
                    other => {
                        if wrap == "{VIA_SCALAR}" && a0.starts_with('[') {
                            None
                        } else {
                            Some(other.clone())
                        }
                    }
                };
                let Some(expected) = expected else { continue };
                // NaN-free pool: `.==` comparison in the where-callback context is exact
                if got.cmp_key() != expected.cmp_key() {
                    ctx.violation(Violation {
                        kind: "call-site-dependent".into(),
                        class: format!("{}|{}", cname, xname),
                        input: format!("{} ;; {}", lines.join(" ; "), prog),
                        expected: format!("{} (value of `{}` at top level right after definition)", expected.cmp_key(), call),
                        observed: format!("{} {}", got.cmp_key(), if let Outcome::EvalError(m) = &got { m.as_str() } else { "" }),
                        case: json!({"lines": lines, "program": prog, "call": call}),
                    });
                }
            }
        }
    }
}

// ---------------------------------------------------------------------------------------------
// arity

/// Parameters named like the function they belong to (or like `inputs`), in the positions the context
/// grammar cannot use: rest and second-optional parameters.
fn own_name_parameter_checks(ctx: &Ctx) {
    let cases = [
        ("f = (...f) => [f]", "f(1, 2)", "[[1, 2]]"),
        ("f = (...f) => [f]", "[5] via f", "[[[5, 0]]]"),
        ("g = (x, g?) => [x, g]", "[g(1), g(1, 2)]", "[[1, null], [1, 2]]"),
        ("h = (x, ...inputs) => [x, inputs]", "h(1, 2)", "[1, [2]]"),
        ("k = k => k", "do {\n  v = k\n  k2 = v\n  return [v(9), k2(8), k(7)]\n}", "[9, 8, 7]"),
        ("m = v => v", "do {\n  v = m\n  return v(9)\n}", "9"),
        ("total = (...total) => total", "[5, 6] via total", "[[5, 0], [6, 1]]"),
        // function values that were never the direct value of an assignment (record field, list element,
        // result of a factory) bound later under a name equal to one of their captured names: the
        // binding must not change what they compute - for the alias or for the original access path
        ("base = 10\nr = {fn: y => base + y}", "[r.fn(1), do {\n  base = r.fn\n  return base(1)\n}, r.fn(1)]", "[11, 11, 11]"),
        ("k = 5\nfs = [x => x + k]", "[fs[0](1), do {\n  k = fs[0]\n  return k(1)\n}, fs[0](1)]", "[6, 6, 6]"),
        ("mk = base => (n => [n, base])", "do {\n  base = mk(1)\n  return base(2)\n}", "[2, 1]"),
        ("mk = base => (n => [n, base])\ng = mk(1)", "[g(2), ((base) => base(2))(g), do {\n  base = g\n  return base(3)\n}, g(4)]", "[[2, 1], [2, 1], [3, 1], [4, 1]]"),
        ("k = 1\nr = {fn: x => [x, k]}\nh = (k) => r.fn(0)", "[h(9), do {\n  k = r.fn\n  return [k(0), h(8)]\n}]", "[[0, 1], [[0, 1], [0, 1]]]"),
    ];
    for (def, call, want) in cases {
        let mut s = Session::new();
        let d = s.run(def);
        let _ = &d;
        let got = s.run(call);
        let exp = s.run(want);
        ctx.count(1);
        ctx.outcome("own-name-parameter");
        if !d.is_ok() || got.cmp_key() != exp.cmp_key() {
            ctx.violation(Violation {
                kind: "parameter-shadowing".into(),
                class: "own-name".into(),
                input: format!("{} ;; {}", def, call),
                expected: exp.cmp_key(),
                observed: got.cmp_key(),
                case: json!({"lines": [def], "program": call, "call": call}),
            });
        }
    }
}

fn arity_checks(ctx: &Ctx) {
    for r in 0..=3usize {
        for o in 0..=2usize {
            for rest in 0..=1usize {
                let mut params: Vec<String> = vec![];
                let mut names: Vec<String> = vec![];
                for i in 0..r {
                    params.push(format!("r{}", i));
                    names.push(format!("r{}", i));
                }
                for i in 0..o {
                    params.push(format!("o{}?", i));
                    names.push(format!("o{}", i));
                }
                if rest == 1 {
                    params.push("...rs".into());
                    names.push("rs".into());
                }
                let def = format!("p = ({}) => [{}]", params.join(", "), names.join(", "));
                let n = r + o;
                for count in 0..=(n + 3) {
                    let vals: Vec<String> = (0..count).map(|i| format!("{}", 10 + i)).collect();
                    // reference model
                    let expected: Option<String> = if count < r || (rest == 0 && count > n) {
                        None
                    } else {
                        let mut items: Vec<String> = vec![];
                        for i in 0..r {
                            items.push(num_repr((10 + i) as f64));
                        }
                        for i in 0..o {
                            items.push(if r + i < count { num_repr((10 + r + i) as f64) } else { "null".into() });
                        }
                        if rest == 1 {
                            let restv: Vec<String> = (n..count.max(n)).map(|i| num_repr((10 + i) as f64)).collect();
                            items.push(format!("[{}]", restv.join(", ")));
                        }
                        Some(format!("[{}]", items.join(", ")))
                    };
                    let forms = [
                        ("plain", format!("p({})", vals.join(", "))),
                        ("spread", format!("p(...[{}])", vals.join(", "))),
                        ("mixed-spread", if count >= 1 { format!("p({}, ...[{}])", vals[0], vals[1..].join(", ")) } else { "p(...[])".into() }),
                        ("into", if count == 1 { format!("{} into p", vals[0]) } else { String::new() }),
                    ];
                    for (fname, prog) in forms {
                        if prog.is_empty() {
                            continue;
                        }
                        let mut s = Session::new();
                        if !s.run(&def).is_ok() {
                            ctx.machinery_error(format!("definition failed: {}", def));
                            return;
                        }
                        let got = s.run(&prog);
                        ctx.count(1);
                        ctx.nontrivial(&format!("{}|{}", def, prog));
                        ctx.outcome(if expected.is_some() { "arity-accept" } else { "arity-reject" });
                        let ok = match (&expected, &got) {
                            (Some(e), Outcome::Ok(g)) => e == g,
                            (None, Outcome::EvalError(_)) => true,
                            _ => false,
                        };
                        if !ok {
                            ctx.violation(Violation {
                                kind: "arity".into(),
                                class: format!("r{}o{}rest{}|{}", r, o, rest, fname),
                                input: format!("{} ;; {}", def, prog),
                                expected: expected.clone().unwrap_or("an arity error".into()),
                                observed: format!("{:?}", got),
                                case: json!({"lines": [def], "program": prog, "call": prog}),
                            });
                        }
                    }
                }
            }
        }
    }
}

pub fn run(ctx: &Ctx, replay: Option<&J>) -> i32 {
    if let Some(r) = replay {
        let mut s = Session::with_inputs(&[("k", json!("input-k"))]);
        for l in r["case"]["lines"].as_array().cloned().unwrap_or_default() {
            println!("{} -> {}", l.as_str().unwrap_or(""), s.run(l.as_str().unwrap_or("")).status());
        }
        let call = r["case"]["call"].as_str().unwrap_or("");
        let prog = r["case"]["program"].as_str().unwrap_or("");
        let top = s.run(call);
        let got = s.run(prog);
        println!("top-level `{}` -> {:?}\nin context `{}` -> {:?}\nrecorded expectation: {}", call, top, prog, got, r["expected"]);
        return 1;
    }
    let clos = all_closures(!ctx.quick());
    let n = clos.len();
    // hand-written closures under every definition-value pair; generated ones under a rotating pair
    let jobs: Vec<(usize, usize)> = (0..n)
        .flat_map(|c| (0..AB_POOL.len()).map(move |ab| (c, ab)))
        .filter(|(c, ab)| *c < closures().len() || (!ctx.quick() && ab % 2 == c % 2) || *ab == c % AB_POOL.len())
        .collect();
    par_for_ctx(ctx, jobs.len(), |i| check_closure(ctx, &clos[jobs[i].0], jobs[i].1));
    ctx.set("closure_definitions", json!(n));
    arity_checks(ctx);
    own_name_parameter_checks(ctx);
    let states = jobs.len() as u64 * 3; // sessions: (definitions) x (after each refused redefinition)
    ctx.set("closures", json!(closures().iter().map(|c| c.0).collect::<Vec<_>>()));
    ctx.set("contexts", json!(contexts(1, false).iter().map(|c| c.0).collect::<Vec<_>>()));
    ctx.set("definition_value_pool", json!(AB_POOL));
    ctx.sample(json!({"definitions": ["a = 1", "b = 2", "g = y => [a, y]", "f = x => [g(x), b]"], "call": "f(2)", "context": "do {\n  a = \"junk\"\n  return f(2)\n}"}));
    ctx.sample(json!({"arity": "p = (r0, o0?, ...rs) => [r0, o0, rs]", "call": "p(...[10, 11, 12])"}));
    ctx.require_outcome("top-ok", 200);
    ctx.require_outcome("top-fail", 5);
    ctx.require_outcome("arity-accept", 100);
    ctx.require_outcome("arity-reject", 100);
    let evals = ctx.evaluations.load(std::sync::atomic::Ordering::Relaxed) as u64;
    finish(
        ctx,
        "model_checking",
        "sessions = (definition-time values of a, b from the pool in `definition_value_pool`, incl. built-in function values) x the hand-written closure definitions counted in `closure_definitions` (plain, curried, nested, defined in do-blocks, capturing closures and chains, self-recursive, shadowing locals / inner parameters, inputs, data captures); transitions = the same call f(args) (6-value argument pool) placed in the calling contexts listed in `contexts` (shadowing parameter / optional / rest parameter, do-locals, nested do, callbacks of via/map/into/reduce/where, f itself as callback, closure created under another a, record / list / conditional positions) after refused redefinitions of a and f; oracle = value at top level right after definition, and for 21 closures also the value written out as an expression over a, b and the argument (a closure that is wrong in the same way everywhere); arity: all 24 documented parameter-list shapes x argument counts 0..n+3 x plain / spread / mixed / into passing against a reference model; distinct = (closure, values, context, call) tuples",
        true,
        Some((states, evals, evals)),
    )
}
