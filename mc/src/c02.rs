//! C02 — evaluation is deterministic and free of side effects on values.
//!
//! (i) histories: every program after every history of <= 2 earlier programs in the same process;
//! (ii) environment answers: every HashMap iteration order the H1 seam can give, with <= 2
//!      deviations from the default, at every choice point a program reaches;
//! (iii) twice: evaluating an expression twice gives equal values and leaves every earlier
//!      binding untouched; (iv) let-abstraction of every sub-expression; (v) the real binary,
//!      repeated in fresh processes.

use crate::common::*;
use crate::proc::run_blots;
use crate::tgen::*;
use blots_core::verif_hooks;
use serde_json::{Value as J, json};

/// Byte-aligned program families: the programs of a family differ only in identifier names of
/// equal length, so that every lambda, call and literal sits at the same byte range while the
/// free variables differ (forces collisions in anything keyed by source position).
fn aligned_programs() -> Vec<String> {
    let mut v = vec![];
    for a in ["k", "j"] {
        for p in ["p", "q"] {
            for x in [a, p] {
                v.push(format!("{a} = 10\nmk = {p} => (v) => v + {x}\noutput add = mk(3)\noutput r = add(1)", a = a, p = p, x = x));
                v.push(format!("{a} = 10\noutput f = {p} => do {{\n  t = [{x}]\n  return (w => [w, t, {x}])\n}}\noutput r = f(2)(3)", a = a, p = p, x = x));
            }
        }
    }
    for (n1, n2) in [("aa", "bb"), ("bb", "aa"), ("aa", "aa")] {
        v.push(format!("aa = 1\nbb = 2\noutput g = (x) => [x, {}, {}]\noutput r = g(0)", n1, n2));
    }
    v
}

fn programs() -> Vec<String> {
    let mut v: Vec<String> = base_programs().into_iter().map(|s| s.to_string()).collect();
    v.extend(aligned_programs());
    v
}

fn base_programs() -> Vec<&'static str> {
    vec![
        "output x = 1 + 2",
        "a = 1\nb = 2\nc = 3\nd = 4\noutput f = x => a + b + c + d + x\noutput y = f(1)",
        "a = 1\nb = [2]\noutput f = x => [a, b, x]",
        "a = \"s\"\nb = {k: 1}\nc = n => n + 1\noutput g = x => {a, b, v: c(x)}\noutput r = g(2)",
        "k1 = 1\nk2 = 2\nk3 = 3\nk4 = 4\nk5 = 5\nk6 = 6\noutput h = () => [k6, k5, k4, k3, k2, k1]\noutput r = h()",
        "l = [3, 1, 2]\noutput s = sort(l)\noutput l2 = l",
        "l = [3, 1, 2]\noutput r = reverse(l)\noutput u = unique(concat(l, l))\noutput l2 = l",
        "l = [3, 1, 2]\noutput s = [...l, ...l]\noutput m = l via (x => x * 2)\noutput l2 = l",
        "r = {b: 1, a: 2, c: {z: 1, y: 2}}\noutput k = keys(r)\noutput e = entries(r)\noutput r2 = {...r, d: 4}",
        "l = [\"b\", \"a\", \"b\", \"c\"]\noutput g = group_by(l, x => x)\noutput c = count_by(l, x => x)",
        "output r = random(7)\noutput r2 = random(7)\noutput r3 = [random(1), random(2)]",
        "output x = nope",
        "a = 1\na = 2",
        "output x = 1 +",
        "f = n => if n <= 1 then 1 else n * f(n - 1)\noutput r = f(10)",
        "ev = n => if n == 0 then true else od(n - 1)\nod = n => if n == 0 then false else ev(n - 1)\noutput r = [ev(10), od(7)]",
        "output r = [1, 2, 3] via (x => x * 2) where (x => x > 2) into sum",
        "output r = do {\n  a = 1\n  b = a + 1\n  return [a, b]\n}",
        "mk = k => (n => n + k)\noutput add2 = mk(2)\noutput add3 = mk(3)\noutput r = [add2(1), add3(1)]",
        "s = \"h\u{e9}llo\"\noutput r = [len(s), uppercase(s), split(s, \"l\"), s[1], [...s]]",
        "output r = convert(1, \"km\", \"m\")\noutput t = convert(100, \"c\", \"f\")",
        "output r = format(\"{} and {}\", 1234567.891, [1, \"a\"])",
        "output r = {a: 1}.a + [1, 2][1] + (x => x)(3)",
        "output r = [1, 2] + [3, 4]\noutput q = [1, 2] * 2\noutput e = [1, \"a\"] == [1, \"b\"]",
        "output r = median([3, 1, 2])\noutput p = percentile([1, 2, 3, 4], 50)\noutput s = sum(1, 2, 3)",
        "output r = inputs\noutput k = #k",
        "a = 1\noutput f = x => do {\n  t = a\n  a = x\n  return [t, a]\n}\noutput r = f(5)",
        "output r = zip([1, 2], [\"a\"])\noutput c = chunk([1, 2, 3], 2)\noutput f = flatten([[1], [2, [3]]])",
        "output r = [1, 2, 3] where ((x, i) => i > 0)",
        "output r = reduce([1, 2, 3], (a, x, i) => a + x * i, 0)",
        "output big = range(200) via (x => x * x) into sum",
        "output r = sort_by([{k: 2}, {k: 1}], x => x.k)",
        "output r = to_string(1.5) + to_string([1, {a: 2}])\noutput n = to_number(\"2.5\")",
        "t = typeof(sum)\noutput r = [t, typeof(x => x), arity((a, b?) => a)]",
        "output r = 1 / 0\noutput q = [0 / 0] == [0 / 0]",
        // failing calls of built-ins that read several arguments before they fail: nothing of a failed call
        // may show in a later program that calls the same built-in
        "output r = median([100, 200, \"x\"])",
        "output r = percentile([1000000, true], 50)",
        "output r = format(1e21, 98765.4321, 0.00001)",
        "output r = [sum(1, 2, \"a\")]",
        "output r = sort_by([3, 1, 2], 5)\noutput q = unique([1, [2], nope])",
        "output a = format(\"{} {}\", 7, 8)\noutput m = median([1, 2, 3])\noutput p = percentile([4, 2], 0)\noutput s = sum(1, 2)",
        // look-ups by spellings that differ only in case (exact, other exact, ambiguous, unknown): a memo
        // keyed by a normalised spelling would let one program decide another's answer
        "output r = convert(1, \"kB\", \"bits\")",
        "output r = convert(1, \"kb\", \"bits\")",
        "output r = convert(1, \"KB\", \"bits\")",
        "output r = [convert(2, \"MB\", \"bits\"), convert(3, \"mA\", \"A\")]\noutput q = convert(1, \"Ma\", \"A\")",
    ]
}

/// Observable result of running a program in a fresh session: status, outputs, bindings.
fn observe(p: &str) -> String {
    let mut s = Session::with_inputs(&[("k", json!("v"))]);
    s.sv_mode = true;
    let o = s.run(p);
    let snap: Vec<String> = s.snapshot().into_iter().map(|(k, v)| format!("{}={}", k, v)).collect();
    format!("{} || outputs {} || bindings {}", o.cmp_key(), s.outputs_json(), snap.join("; "))
}

fn observe_scripted(p: &str, script: Vec<usize>) -> (String, Vec<(usize, usize)>) {
    verif_hooks::reset(script);
    let r = observe(p);
    let log = verif_hooks::take_log();
    verif_hooks::reset(vec![]);
    (r, log)
}

const PRELUDE: &str = "gl = [3, 1, 2]\ngr = {b: 1, a: [1, 2]}\ngs = \"abc\"\ngf = x => x + 1\ngn = 2\n";

fn typed(t: &T) -> T {
    let m = |n: &str| -> T {
        match n {
            "a" | "g" => T::id("gl"),
            "b" | "h" => T::id("gr"),
            "c" | "i" => T::id("gs"),
            "d" | "j" => T::id("gf"),
            "e" | "m" => T::id("gn"),
            "f" | "n" => T::num(1.0),
            o => T::id(o),
        }
    };
    map_leaves(t, &m)
}

fn map_leaves(t: &T, m: &dyn Fn(&str) -> T) -> T {
    let b = |x: &T| Box::new(map_leaves(x, m));
    match t {
        T::Id(n) => m(n),
        T::Num(_) | T::Str(_) | T::Bool(_) | T::Null | T::Inp(_) => t.clone(),
        T::List(v) => T::List(v.iter().map(|x| map_leaves(x, m)).collect()),
        T::Rec(es) => T::Rec(
            es.iter()
                .map(|e| match e {
                    RE::Kv(k, v) => RE::Kv(k.clone(), map_leaves(v, m)),
                    RE::Qkv(k, v) => RE::Qkv(k.clone(), map_leaves(v, m)),
                    RE::Dyn(k, v) => RE::Dyn(map_leaves(k, m), map_leaves(v, m)),
                    RE::Short(_) => RE::Short("gl".into()),
                    RE::Spread(v) => RE::Spread(map_leaves(v, m)),
                })
                .collect(),
        ),
        T::Lam(a, body) => T::Lam(a.clone(), b(body)),
        T::Cond(x, y, z) => T::Cond(b(x), b(y), b(z)),
        T::Do(s, r) => T::Do(s.iter().map(|x| map_leaves(x, m)).collect(), b(r)),
        T::Assign(n, v) => T::Assign(n.clone(), b(v)),
        T::Call(f, a) => T::Call(b(f), a.iter().map(|x| map_leaves(x, m)).collect()),
        T::Index(x, y) => T::Index(b(x), b(y)),
        T::Field(x, f) => T::Field(b(x), f.clone()),
        T::Bin(op, x, y) => T::Bin(*op, b(x), b(y)),
        T::Neg(x) => T::Neg(b(x)),
        T::Bang(x) => T::Bang(b(x)),
        T::NotW(x) => T::NotW(b(x)),
        T::Fact(x) => T::Fact(b(x)),
        T::Spread(x) => T::Spread(b(x)),
        T::Output(x) => T::Output(b(x)),
    }
}

fn has_assign(t: &T) -> bool {
    let mut found = matches!(t, T::Assign(..));
    t.for_children(|c| found = found || has_assign(c));
    found
}

/// All (path, subtree) pairs of compound, assignment-free, non-spread sub-expressions.
fn subterms(t: &T, path: &mut Vec<usize>, out: &mut Vec<(Vec<usize>, T)>) {
    let mut i = 0;
    t.for_children(|c| {
        path.push(i);
        if !c.is_leaf() && !matches!(c, T::Spread(_)) && !has_assign(c) {
            out.push((path.clone(), c.clone()));
        }
        subterms(c, path, out);
        path.pop();
        i += 1;
    });
}

/// Replace the sub-tree at `path` (child indices in `for_children` order) by `with`.
fn replace_at(t: &T, path: &[usize], with: &T) -> T {
    if path.is_empty() {
        return with.clone();
    }
    let mut idx = 0usize;
    let target = path[0];
    let mut next = |c: &T| -> T {
        let r = if idx == target { replace_at(c, &path[1..], with) } else { c.clone() };
        idx += 1;
        r
    };
    match t {
        T::List(v) => T::List(v.iter().map(&mut next).collect()),
        T::Rec(es) => T::Rec(
            es.iter()
                .map(|e| match e {
                    RE::Kv(k, v) => RE::Kv(k.clone(), next(v)),
                    RE::Qkv(k, v) => RE::Qkv(k.clone(), next(v)),
                    RE::Dyn(k, v) => {
                        let k2 = next(k);
                        RE::Dyn(k2, next(v))
                    }
                    RE::Short(n) => RE::Short(n.clone()),
                    RE::Spread(v) => RE::Spread(next(v)),
                })
                .collect(),
        ),
        T::Lam(a, b) => T::Lam(a.clone(), Box::new(next(b))),
        T::Cond(a, b, c) => {
            let a2 = next(a);
            let b2 = next(b);
            T::Cond(Box::new(a2), Box::new(b2), Box::new(next(c)))
        }
        T::Do(s, r) => {
            let s2: Vec<T> = s.iter().map(&mut next).collect();
            T::Do(s2, Box::new(next(r)))
        }
        T::Assign(n, v) => T::Assign(n.clone(), Box::new(next(v))),
        T::Call(f, a) => {
            let f2 = next(f);
            T::Call(Box::new(f2), a.iter().map(&mut next).collect())
        }
        T::Index(a, b) => {
            let a2 = next(a);
            T::Index(Box::new(a2), Box::new(next(b)))
        }
        T::Field(a, f) => T::Field(Box::new(next(a)), f.clone()),
        T::Bin(op, a, b) => {
            let a2 = next(a);
            T::Bin(*op, Box::new(a2), Box::new(next(b)))
        }
        T::Neg(a) => T::Neg(Box::new(next(a))),
        T::Bang(a) => T::Bang(Box::new(next(a))),
        T::NotW(a) => T::NotW(Box::new(next(a))),
        T::Fact(a) => T::Fact(Box::new(next(a))),
        T::Spread(a) => T::Spread(Box::new(next(a))),
        T::Output(a) => T::Output(Box::new(next(a))),
        leaf => leaf.clone(),
    }
}

fn session_with_prelude() -> Session {
    let mut s = Session::new();
    s.sv_mode = true;
    let o = s.run(PRELUDE);
    assert!(o.is_ok(), "prelude failed: {:?}", o);
    s
}

fn check_expression(ctx: &Ctx, t: &T) {
    let e = t.full();
    // (iii) twice, and earlier bindings untouched
    let mut s = session_with_prelude();
    let before = s.snapshot();
    let first = s.run(&format!("x1 = {}", e));
    let second = s.run(&format!("x2 = {}", e));
    ctx.count(2);
    let case = json!({"expr": e});
    if first.cmp_key() != second.cmp_key() && !has_assign(t) {
        ctx.violation(Violation { kind: "twice-differs".into(), class: crate::c07::shape_class(t), input: e.clone(), expected: first.cmp_key(), observed: second.cmp_key(), case: case.clone() });
    }
    let after = s.snapshot();
    for (k, v) in &before {
        if after.get(k) != Some(v) {
            ctx.violation(Violation { kind: "earlier-binding-changed".into(), class: crate::c07::shape_class(t), input: format!("{} ;; binding {}", e, k), expected: v.clone(), observed: format!("{:?}", after.get(k)), case: case.clone() });
        }
    }
    if first.is_ok() {
        ctx.outcome("expression-evaluates");
        let eq = s.run("x1 .== x2");
        // NaN-containing values are not .== to themselves; functions are compared by structure
        if let (Outcome::Ok(v), Outcome::Ok(c)) = (&eq, &first) {
            if v == "false" && !c.contains("NaN") {
                ctx.violation(Violation { kind: "twice-not-equal".into(), class: crate::c07::shape_class(t), input: e.clone(), expected: "x1 .== x2".into(), observed: "false".into(), case: case.clone() });
            }
        }
    } else {
        ctx.outcome("expression-fails");
    }
    ctx.nontrivial(&e);
    // (iv) let-abstraction of every sub-expression that evaluates on its own
    if has_assign(t) {
        return;
    }
    let mut subs = vec![];
    subterms(t, &mut vec![], &mut subs);
    let reference = {
        let mut s = session_with_prelude();
        s.run(&e)
    };
    for (path, sub) in subs {
        let mut s2 = session_with_prelude();
        let bound = s2.run(&format!("tmp = {}", sub.full()));
        ctx.count(1);
        if !bound.is_ok() {
            ctx.outcome("subterm-fails-alone");
            continue;
        }
        let replaced = replace_at(t, &path, &T::id("tmp"));
        let got = s2.run(&replaced.full());
        ctx.count(1);
        ctx.outcome("let-abstraction-checked");
        if got.cmp_key() != reference.cmp_key() {
            ctx.violation(Violation {
                kind: "let-abstraction".into(),
                class: crate::c07::shape_class(t),
                input: format!("{}  ==>  tmp = {} ; {}", e, sub.full(), replaced.full()),
                expected: reference.cmp_key(),
                observed: got.cmp_key(),
                case: json!({"expr": e, "sub": sub.full(), "replaced": replaced.full()}),
            });
        }
    }
}

/// (iv-b) abstraction of a *repeated* sub-expression: `C[E, E]` against `t = E ; C[t, t]`, where the
/// two occurrences become one heap object. E ranges over containers with and without NaN inside,
/// C over every comparison / membership / de-duplication context with two or three holes.
fn check_repeated_subexpression(ctx: &Ctx) {
    let es = [
        "[0/0]", "{x: inf - inf}", "[[0/0], 1]", "{a: [0/0]}", "[1, 2]", "{a: 1}", "\"s\"", "[null]", "[1, null]", "[{a: 1}, 2]", "0/0", "[]", "{}", "x => x", "[x => x]",
        // closures whose captured values are created afresh by every evaluation of E
        "((k) => (x) => x + k)(\"s\")", "((k) => (x) => [x, k])([1])", "((n) => do {\n  items = [n, n + 1]\n  return (i) => items[i]\n})(1)", "((k) => (x) => k)({a: 1})", "((k) => (x) => k(x))(y => y)", "((k) => (x) => x + k)(2)",
    ];
    let contexts = [
        "H .== H", "H .!= H", "H == H", "H != H", "[H] == [H]", "[H, 1] != [H, 1]", "{k: H} .== {k: H}", "[H, H] .== [H, H]", "H .< H", "H .<= H", "H .> H", "H .>= H", "H < H", "H <= H",
        "ugt(H, H)", "ugte(H, H)", "ult(H, H)", "ulte(H, H)", "unique([H, H])", "len(unique([H, H, H]))", "includes([H], H)", "includes([1, H], H)", "sort([H, H])", "[H, H] via (v => v .== H)",
        "[H, H] where (v => v .!= H)", "count_by([H, H], v => v .== H)", "H ?? H", "[H .== H, H .== H]", "if H .== H then 1 else 2", "(v => v .== H)(H)", "((a, b) => a .== b)(H, H)", "do {\n  u = H\n  return u .== H\n}",
        "max(H, H)", "[...H, ...H]", "{...H, ...H}", "H[0] .== H[0]", "H.a .>= H.a", "to_string(H) == to_string(H)",
    ];
    let mut jobs: Vec<(String, String)> = vec![];
    for e in es {
        for c in contexts {
            jobs.push((c.replace('H', &format!("({})", e)), format!("t = {}\n{}", e, c.replace('H', "t"))));
        }
    }
    let outs: Vec<(Outcome, Outcome)> = par_map(&jobs, |(inline, abstracted)| {
        let mut s1 = Session::new();
        s1.sv_mode = true;
        let a = s1.run(inline);
        let mut s2 = Session::new();
        s2.sv_mode = true;
        let b = s2.run(abstracted);
        (a, b)
    });
    for ((inline, abstracted), (a, b)) in jobs.iter().zip(outs.iter()) {
        ctx.count(2);
        ctx.nontrivial(inline);
        ctx.outcome(if a.is_ok() { "repeated-subexpression-ok" } else { "repeated-subexpression-fails" });
        if a.cmp_key() != b.cmp_key() {
            ctx.violation(Violation {
                kind: "let-abstraction".into(),
                class: "repeated-subexpression".into(),
                input: format!("{}  ==>  {}", inline, abstracted.replace('\n', " ; ")),
                expected: a.cmp_key(),
                observed: b.cmp_key(),
                case: json!({"inline": inline, "abstracted": abstracted}),
            });
        }
    }
}

/// (iv-c) abstraction of one of two *different* sub-expressions, which changes the order in which the
/// two values are created: `C[E1, E2]` against `t = E2 ; C[E1, t]`, `t = E1 ; C[t, E2]` and both. A value
/// must not depend on what was allocated before it (interning, slot reuse, caches keyed too coarsely).
fn check_order_abstraction(ctx: &Ctx) {
    let es = [
        "\"\u{e9}\"", "\"\u{e8}\"", "\"\u{fc}\"", "\"a\"", "\"b\"", "\"\"", "\"\u{65e5}\"", "\"\u{672c}\"", "\"\u{1f600}\"", "\"\u{1f601}\"", "\"ab\"", "\"\u{e9}\u{e8}\"", "[1]", "[2]", "[]", "{a: 1}", "{a: 2}", "{}", "1.5", "0", "(-0)",
        "null", "true", "(x => x)", "(x => x + 1)", "\"a\u{e9}\u{e8}b\"[1]", "\"a\u{e9}\u{e8}b\"[2]", "[...\"\u{e8}\u{e9}\"][0]", "split(\"\u{e9},\u{e8}\", \",\")[1]",
    ];
    let contexts = ["[H1, H2]", "[H1 .== H2, H1, H2]", "{p: H1, q: H2}", "to_string(H1) + to_string(H2)", "[[H1], [H2, H1]]", "[typeof(H1), H2, H1]", "unique([H1, H2, H1])", "sort([H1, H2])", "sort([[H1], [H2], [H1]])", "sort_by([H1, H2], x => x)", "sort_by([1, 2], i => [H2, H1][i - 1])", "[includes([H1], H2), H1 == H2, max(1, 2)]"];
    let mut jobs: Vec<(String, Vec<String>)> = vec![];
    for e1 in es {
        for e2 in es {
            if e1 == e2 {
                continue;
            }
            for c in contexts {
                let inline = c.replace("H1", e1).replace("H2", e2);
                let variants = vec![
                    format!("t = {}\n{}", e2, c.replace("H1", e1).replace("H2", "t")),
                    format!("t = {}\n{}", e1, c.replace("H1", "t").replace("H2", e2)),
                    format!("t2 = {}\nt1 = {}\n{}", e2, e1, c.replace("H1", "t1").replace("H2", "t2")),
                ];
                jobs.push((inline, variants));
            }
        }
    }
    let outs: Vec<(Outcome, Vec<Outcome>)> = par_map(&jobs, |(inline, variants)| {
        let run = |src: &str| {
            let mut s = Session::new();
            s.sv_mode = true;
            s.run(src)
        };
        (run(inline), variants.iter().map(|v| run(v)).collect())
    });
    for ((inline, variants), (a, bs)) in jobs.iter().zip(outs.iter()) {
        ctx.count(1 + variants.len());
        ctx.nontrivial(inline);
        ctx.outcome(if a.is_ok() { "order-abstraction-ok" } else { "order-abstraction-fails" });
        for (v, b) in variants.iter().zip(bs.iter()) {
            if a.cmp_key() != b.cmp_key() {
                ctx.violation(Violation {
                    kind: "let-abstraction".into(),
                    class: "evaluation-order".into(),
                    input: format!("{}  ==>  {}", inline, v.replace('\n', " ; ")),
                    expected: a.cmp_key(),
                    observed: b.cmp_key(),
                    case: json!({"inline": inline, "abstracted": v}),
                });
            }
        }
    }
}

/// (iii-b) operands are never modified: a value of any size - bound last, so that it is the newest thing
/// on the heap - is used as an operand of every operator and built-in that could be tempted to reuse
/// its storage; the operation evaluated twice gives the same result and the operand reads back unchanged.
fn check_operand_immutability(ctx: &Ctx) {
    let sizes: &[usize] = if ctx.quick() { &[10, 300, 1023, 1024, 1025, 5000] } else { &[1, 10, 100, 255, 256, 300, 1000, 1023, 1024, 1025, 2048, 4097, 5000, 70000] };
    let mut values: Vec<(String, &'static str)> = vec![];
    for &n in sizes {
        values.push((format!("slice(join(range(0, {}) via to_string, \"\"), 0, {})", n, n), "string"));
        values.push((format!("join(range(0, {}) via (i => \"{}\"), \"\")", n / 2 + 1, '\u{e9}'), "string"));
        values.push((format!("range(0, {})", n.min(5000)), "list"));
        values.push((format!("range(0, {}) via to_string", n.min(5000)), "list"));
    }
    values.push(("{k0: 1, k1: [2], k2: \"s\", k3: null, k4: 4, k5: 5, k6: 6, k7: 7, k8: 8, k9: 9, k10: 10, k11: 11, k12: 12, k13: 13, k14: 14, k15: 15, k16: 16, k17: 17, k18: 18, k19: 19, k20: 20}".to_string(), "record"));
    let ops: Vec<(&'static str, &'static str)> = vec![
        ("big + sep", "string"), ("big + big", "string"), ("sep + big", "string"), ("[big] + [sep]", "string"), ("big + other", "any"), ("[big, big]", "any"), ("big == big", "any"), ("len(big)", "any"),
        ("to_string(big)", "any"), ("format(\"{}\", big)", "any"), ("replace(big, \"1\", \"x\")", "string"), ("uppercase(big)", "string"), ("trim(big)", "string"), ("split(big, \"1\")", "string"),
        ("slice(big, 0, 5)", "any"), ("head(big)", "any"), ("tail(big)", "any"), ("[...big, 1]", "any"), ("big[0]", "any"), ("big via (x => x)", "list"), ("big where (x => true)", "list"),
        ("concat(big, [1])", "list"), ("sort(big)", "list"), ("reverse(big)", "list"), ("unique(big)", "list"), ("join(big via to_string, \",\")", "list"), ("flatten([big, big])", "list"), ("zip(big, big)", "list"),
        ("chunk(big, 7)", "list"), ("sum(big)", "list"), ("big + 1", "list"), ("big + big", "list"), ("sort_by(big, x => x)", "list"), ("reduce(big, (a, x) => a, 0)", "list"), ("big into len", "any"),
        ("{...big, z: 1}", "record"), ("keys(big)", "record"), ("values(big)", "record"), ("entries(big)", "record"), ("big.k1", "record"), ("{...big}", "record"), ("[...big]", "record"),
    ];
    let mut jobs: Vec<(String, String)> = vec![];
    for (v, ty) in &values {
        for (op, want) in &ops {
            if *want == "any" || want == ty {
                jobs.push((v.clone(), op.to_string()));
            }
        }
    }
    let results: Vec<Vec<(String, String, String)>> = par_map(&jobs, |(v, op)| {
        let mut problems = vec![];
        let mut s = Session::new();
        s.sv_mode = true;
        let _ = s.run("sep = \"-\"\nother = [1]");
        // bound last: nothing else is allocated between the operand and the operation
        if !s.run(&format!("big = {}", v)).is_ok() {
            return vec![("machinery".into(), "big binds".into(), "failed".into())];
        }
        let before = s.lookup("big").unwrap_or_default();
        let r1 = s.run(&format!("r1 = {}", op));
        let mid = s.lookup("big").unwrap_or_default();
        let r2 = s.run(&format!("r2 = {}", op));
        let after = s.lookup("big").unwrap_or_default();
        if before != mid || before != after {
            problems.push(("operand-modified".to_string(), truncate(&before, 120), truncate(&after, 120)));
        }
        if r1.cmp_key() != r2.cmp_key() {
            problems.push(("twice-differs".to_string(), truncate(&r1.cmp_key(), 120), truncate(&r2.cmp_key(), 120)));
        }
        // the first result must not have been changed by the second evaluation either
        if r1.is_ok() && s.lookup("r1").map(|x| format!("ok:{}", x)) != Some(r1.cmp_key()) {
            problems.push(("result-modified-later".to_string(), truncate(&r1.cmp_key(), 120), truncate(&s.lookup("r1").unwrap_or_default(), 120)));
        }
        problems
    });
    for ((v, op), probs) in jobs.iter().zip(results.iter()) {
        ctx.count(2);
        ctx.nontrivial(&format!("{} | {}", v, op));
        ctx.outcome("operand-immutability");
        for (kind, exp, obs) in probs {
            if kind == "machinery" {
                ctx.machinery_error(format!("operand {} does not bind", v));
                continue;
            }
            ctx.violation(Violation {
                kind: kind.clone(),
                class: "operand-immutability".into(),
                input: format!("sep = \"-\" ; other = [1] ; big = {} ; r1 = {} ; r2 = {}", v, op, op),
                expected: exp.clone(),
                observed: obs.clone(),
                case: json!({"inline": format!("sep = \"-\"\nother = [1]\nbig = {}\nr1 = {}\nr2 = {}\n[len(to_string(big)), to_string(r1) == to_string(r2)]", v, op, op), "abstracted": format!("sep = \"-\"\nother = [1]\nbig = {}\n[len(to_string(big)), true]", v)}),
            });
        }
    }
}

/// (i-b) the WASM entry point that evaluates a *batch* of inline expressions: every expression of a batch
/// gives what it gives when it is the only one (an earlier expression - successful or failed - that binds
/// a name must not be visible to a later one).
fn check_inline_batches(ctx: &Ctx) {
    use crate::wasmdrv::blots_wasm;
    let exprs = [
        "t = n * 2", "t + 1", "t = n * 3", "n + 1", "(t = 2) + \"a\"", "t", "[u = [n], u]", "u", "f = x => x + n", "f(1)", "do {\n  w = 5\n  return w\n}", "w", "inputs.n", "#n", "nope", "[1, 2] via (x => x * n)",
    ];
    let inputs = json!({"n": {"Number": 4.0}});
    let single: Vec<String> = exprs.iter().map(|e| format!("{:?}", catch(|| blots_wasm::evaluate_inline_expressions(json!([e]), inputs.clone())))).collect();
    // every ordered pair and the whole list as batches
    let mut batches: Vec<Vec<usize>> = vec![(0..exprs.len()).collect(), (0..exprs.len()).rev().collect()];
    for i in 0..exprs.len() {
        for j in 0..exprs.len() {
            batches.push(vec![i, j]);
        }
    }
    for b in &batches {
        let texts: Vec<&str> = b.iter().map(|i| exprs[*i]).collect();
        let got = catch(|| blots_wasm::evaluate_inline_expressions(json!(texts), inputs.clone()));
        ctx.count(1);
        ctx.nontrivial(&format!("inline-batch:{:?}", b));
        ctx.outcome("inline-batch");
        // compare element-wise with the single-expression results (the response is an array of results)
        let got_items: Option<Vec<J>> = match &got {
            Ok(Ok(j)) => j.as_array().cloned(),
            _ => None,
        };
        if got_items.as_ref().map(|a| a.len()) == Some(b.len()) {
            ctx.outcome("inline-batch-array");
        }
        for (pos, i) in b.iter().enumerate() {
            let alone: Option<J> = match catch(|| blots_wasm::evaluate_inline_expressions(json!([exprs[*i]]), inputs.clone())) {
                Ok(Ok(j)) => j.as_array().and_then(|a| a.first().cloned()),
                _ => None,
            };
            let here = got_items.as_ref().and_then(|a| a.get(pos).cloned());
            if alone != here {
                ctx.violation(Violation {
                    kind: "history-dependent".into(),
                    class: "wasm-inline-batch".into(),
                    input: format!("evaluate_inline_expressions({:?}) - expression {} `{}`", texts, pos, exprs[*i]),
                    expected: truncate(&format!("{:?}", alone), 200),
                    observed: truncate(&format!("{:?}", here), 200),
                    case: json!({"inline": exprs[*i], "abstracted": exprs[*i]}),
                });
                break;
            }
        }
    }
    let _ = single;
}

/// Every script over the logged choice points with at most `max_dev` non-default answers.
fn deviation_scripts(log: &[(usize, usize)], max_dev: usize) -> Vec<Vec<usize>> {
    let mut out: Vec<Vec<usize>> = vec![];
    let n = log.len();
    for i in 0..n {
        for a in 1..log[i].1 {
            let mut s = vec![0; n];
            s[i] = a;
            out.push(s.clone());
            if max_dev >= 2 {
                for j in (i + 1)..n {
                    for b in 1..log[j].1 {
                        let mut s2 = s.clone();
                        s2[j] = b;
                        out.push(s2);
                    }
                }
            }
        }
    }
    out
}

pub fn run(ctx: &Ctx, replay: Option<&J>) -> i32 {
    let progs = programs();
    if let Some(r) = replay {
        let c = &r["case"];
        if let Some(pi) = c["program_index"].as_u64() {
            let h: Vec<usize> = c["history"].as_array().map(|a| a.iter().map(|x| x.as_u64().unwrap_or(0) as usize).collect()).unwrap_or_default();
            let p = progs[pi as usize].clone();
            let alone = in_fresh_process(|| observe(&p)).unwrap_or_default();
            let progs2 = progs.clone();
            let after = in_fresh_process(move || {
                for i in &h {
                    let _ = observe(&progs2[*i]);
                }
                observe(&progs2[pi as usize])
            })
            .unwrap_or_default();
            println!("program:\n{}\nalone (fresh process): {}\nafter history {}: {}", p, alone, c["history"], after);
            if alone != after {
                println!("VIOLATION property=C02 replay=<replayed>");
                return 1;
            }
            return 0;
        }
        if let Some(p) = c["program"].as_str() {
            let script: Vec<usize> = c["script"].as_array().map(|a| a.iter().map(|x| x.as_u64().unwrap_or(0) as usize).collect()).unwrap_or_default();
            let (base, _) = observe_scripted(p, vec![]);
            let (got, log) = observe_scripted(p, script.clone());
            println!("program:\n{}\nscript {:?} (choice points {:?})\nbaseline: {}\nobserved: {}", p, script, log, base, got);
            return if base == got { 0 } else { 1 };
        }
        if let (Some(i), Some(a)) = (c["inline"].as_str(), c["abstracted"].as_str()) {
            let (mut s1, mut s2) = (Session::new(), Session::new());
            s1.sv_mode = true;
            s2.sv_mode = true;
            let (x, y) = (s1.run(i), s2.run(a));
            println!("inline: {}\n -> {}\nabstracted: {}\n -> {}", i, x.cmp_key(), a.replace('\n', " ; "), y.cmp_key());
            return if x.cmp_key() == y.cmp_key() { 0 } else { 1 };
        }
        println!("{}", c);
        return 1;
    }
    let thorough = !ctx.quick();
    // ---- (i) histories. "Fresh" is literal: every baseline and every history runs in its own
    // forked process, so nothing evaluated earlier (thread-locals, caches, counters) can leak in.
    let progs_owned = progs.clone();
    let progs: Vec<&str> = progs_owned.iter().map(|s| s.as_str()).collect();
    let n = progs.len();
    const SEP: &str = "\u{1}\u{2}\u{1}";
    // (forks are issued from single-threaded processes only: the main thread here, and the
    // single-threaded workers of par_for_ctx below)
    let baseline: Vec<String> = (0..n).map(|i| in_fresh_process(|| observe(progs[i])).unwrap_or_else(|| "<child died>".into())).collect();
    let mut hist: Vec<Vec<usize>> = vec![vec![]];
    for a in 0..n {
        hist.push(vec![a]);
    }
    for a in 0..n {
        for b in 0..n {
            if thorough || (a + b) % 3 == 0 {
                hist.push(vec![a, b]);
            }
        }
    }
    // one fresh process per history: run the history, then every program (rotated so that each
    // program is also the *first* one after the history in some process)
    par_for_ctx(ctx, hist.len(), |hi| {
        let h = &hist[hi];
        let rot = h.iter().sum::<usize>() % n;
        let order: Vec<usize> = (0..n).map(|k| (k + rot) % n).collect();
        let text = in_fresh_process(|| {
            for i in h {
                let _ = observe(progs[*i]);
            }
            order.iter().map(|p| observe(progs[*p])).collect::<Vec<_>>().join(SEP)
        });
        let res: Vec<(usize, String)> = match text {
            Some(t) => order.iter().cloned().zip(t.split(SEP).map(|s| s.to_string())).collect(),
            None => vec![],
        };
        if res.len() != n {
            ctx.machinery_error(format!("history {:?}: child process died", h));
            return;
        }
        let mut seen_before: Vec<usize> = h.clone();
        for (p, got) in &res {
            ctx.count(1);
            ctx.outcome("history-case");
            if got != &baseline[*p] {
                ctx.violation(Violation {
                    kind: "history-dependent".into(),
                    class: format!("program{}", p),
                    input: format!("after programs {:?}: {}", seen_before, progs[*p]),
                    expected: baseline[*p].clone(),
                    observed: got.clone(),
                    case: json!({"history": seen_before, "program_index": p}),
                });
            }
            seen_before.push(*p);
        }
    });
    let mut transitions: u64 = (hist.len() * n) as u64;
    ctx.nontrivial_many((0..hist.len() as u64).map(|i| fnv(&format!("hist{}", i))));
    // ---- (ii) iteration orders through the H1 seam
    let mut states: u64 = hist.len() as u64;
    let mut total_points = 0usize;
    let mut total_scripts = 0usize;
    for (pi, p) in progs.iter().enumerate() {
        let (base, log) = observe_scripted(p, vec![]);
        if base != baseline[pi] {
            ctx.violation(Violation { kind: "not-reproducible".into(), class: format!("program{}", pi), input: p.to_string(), expected: baseline[pi].clone(), observed: base.clone(), case: json!({"program": p, "script": []}) });
        }
        total_points += log.len();
        let scripts = deviation_scripts(&log, if thorough || log.len() <= 6 { 2 } else { 1 });
        total_scripts += scripts.len();
        for sc in scripts {
            let (got, log2) = observe_scripted(p, sc.clone());
            transitions += 1;
            states += 1;
            ctx.count(1);
            ctx.outcome("iteration-order-case");
            ctx.nontrivial(&format!("order:{}:{:?}", pi, sc));
            if log2.len() != log.len() {
                // a different order must not change which choice points are reached
                ctx.violation(Violation { kind: "order-changes-control-flow".into(), class: format!("program{}", pi), input: format!("{} with answers {:?}", p, sc), expected: format!("{} choice points", log.len()), observed: format!("{} choice points", log2.len()), case: json!({"program": p, "script": sc}) });
            }
            if got != base {
                ctx.violation(Violation { kind: "iteration-order-dependent".into(), class: format!("program{}", pi), input: format!("{} with iteration-order answers {:?}", p, sc), expected: base.clone(), observed: got, case: json!({"program": p, "script": sc}) });
            }
        }
    }
    ctx.set("choice_points_reached", json!(total_points));
    ctx.set("order_scripts", json!(total_scripts));
    if total_points < 20 {
        ctx.machinery_error(format!("vacuity guard: only {} iteration-order choice points reached", total_points));
    }
    // ---- (iii) + (iv) expressions over shared data
    let mut stats = GenStats::default();
    let kinds = all_kinds();
    let mut trees: Vec<T> = if thorough { single_slot(&kinds, &kinds, &mut stats) } else { single_slot(&representative_kinds(), &kinds, &mut stats) };
    for k in &kinds {
        if k.is_expr {
            let mut s = LeafSupply::new();
            trees.push(with_leaves(k, &mut s));
        }
    }
    let mut exprs: Vec<T> = trees.iter().map(typed).collect();
    // built-ins applied to the shared values
    for f in ["sort", "reverse", "unique", "flatten", "len", "head", "tail", "keys", "values", "entries", "sum", "max", "median", "typeof", "to_string", "uppercase", "trim"] {
        for a in ["gl", "gr", "gs", "gn"] {
            exprs.push(T::call(T::id(f), vec![T::id(a)]));
        }
    }
    for (f, a, b) in [("concat", "gl", "gl"), ("map", "gl", "gf"), ("filter", "gl", "gf"), ("zip", "gl", "gl"), ("chunk", "gl", "gn"), ("split", "gs", "gs"), ("includes", "gl", "gn"), ("sort_by", "gl", "gf"), ("group_by", "gl", "to_string"), ("join", "gl", "gs"), ("percentile", "gl", "gn"), ("round", "gn", "gn")] {
        exprs.push(T::call(T::id(f), vec![T::id(a), T::id(b)]));
        exprs.push(T::List(vec![T::call(T::id(f), vec![T::id(a), T::id(b)]), T::id(a)]));
    }
    {
        let mut seen = std::collections::HashSet::new();
        exprs.retain(|t| seen.insert(t.full()));
    }
    ctx.set("expressions", json!(exprs.len()));
    par_for_ctx(ctx, exprs.len(), |i| check_expression(ctx, &exprs[i]));
    check_inline_batches(ctx);
    check_operand_immutability(ctx);
    check_repeated_subexpression(ctx);
    check_order_abstraction(ctx);
    // ---- (v) the real binary, fresh processes (repetition, not the deciding step)
    let reps = if thorough { 8 } else { 3 };
    let cli: Vec<Vec<String>> = par_map(&progs, |p| {
        (0..reps)
            .map(|_| {
                let r = run_blots(&[p.to_string(), "-i".into(), "{\"k\": \"v\"}".into()], None, None);
                format!("{:?}|{}|{}", r.code, r.stdout, r.stderr)
            })
            .collect()
    });
    for (p, runs) in progs.iter().zip(cli.iter()) {
        ctx.count(runs.len());
        ctx.outcome("cli-repetition");
        if runs.iter().any(|r| r != &runs[0]) {
            ctx.violation(Violation { kind: "process-dependent".into(), class: "cli".into(), input: p.to_string(), expected: truncate(&runs[0], 200), observed: truncate(runs.iter().find(|r| *r != &runs[0]).unwrap(), 200), case: json!({"program": p, "script": []}) });
        }
    }
    ctx.sample(json!({"history": [progs[5], progs[10]], "then": progs[1]}));
    ctx.sample(json!({"iteration_order": {"program": progs[4], "answers": [3, 0]}}));
    ctx.sample(json!({"let_abstraction": "tmp = sort(gl) ; [tmp, gl]  vs  [sort(gl), gl]"}));
    ctx.require_outcome("history-case", 1000);
    ctx.require_outcome("iteration-order-case", 100);
    ctx.require_outcome("let-abstraction-checked", 500);
    ctx.require_outcome("inline-batch-array", 100);
    ctx.require_outcome("expression-evaluates", 100);
    ctx.assume("time_now and print are excluded; for scopes with more than 4 names only n+1 of the n! iteration orders are enumerated; at most two simultaneous non-default iteration orders");
    finish(
        ctx,
        "model_checking",
        "states = histories of <= 2 earlier programs (45-program alphabet) and iteration-order answer scripts with <= 2 deviations at the choice points each program reaches (H1 seam: captured scopes and environments); transitions = one whole-program evaluation in a fresh session, observed as status + outputs JSON + all bindings and compared with the empty-history / default-order run; plus every generated expression (every kind, parent x child spines over shared list / record / string / function / number leaves, built-ins applied to shared values) evaluated twice with all earlier bindings re-checked, operand immutability for strings / lists / records of 10..5000 (thorough 1..70000) bytes or elements under 42 operators and built-ins (the operand bound last, evaluated twice), let-abstraction of every assignment-free sub-expression, and abstraction of a repeated sub-expression (15 values incl. NaN-carrying containers x 38 two-/three-hole contexts: the occurrences become one heap object) and of one of two different sub-expressions (29 values incl. one-character strings sharing a UTF-8 lead byte x 7 contexts x 3 orders of creation); the real binary repeated in fresh processes; distinct = histories, (program, script) pairs and expressions",
        true,
        Some((states, transitions, transitions)),
    )
}
