//! C09 — formatting never loses or reorders comments.
//!
//! Base programs are line templates with annotated comment slots (end of a line / own line below
//! a line). Every slot alone, every pair and all slots at once are filled with unique comment
//! texts, the program is formatted at every width up to its saturation bound through the real
//! wasm driver (native shim) and through `blots --format`, and the comment sequence of the output
//! (independent quote-aware scan) must equal that of the input.

use crate::c07::fmt_lib;
use crate::common::*;
use crate::parse::*;
use crate::proc::run_cli_format;
use serde_json::{Value as J, json};

#[derive(Clone, Copy, PartialEq, Eq, Debug)]
enum K {
    /// between / after statements, end of a statement line
    Stmt,
    List,
    Record,
    Do,
    /// positions where the grammar swallows the comment in a silent NEWLINE (no AST slot)
    Silent(&'static str),
    /// inside an otherwise empty list / record
    Empty(&'static str),
}

impl K {
    fn class(&self) -> String {
        match self {
            K::Stmt => "statement".into(),
            K::List => "list".into(),
            K::Record => "record".into(),
            K::Do => "do-block".into(),
            K::Silent(s) => format!("silent-newline:{}", s),
            K::Empty(s) => format!("empty-container:{}", s),
        }
    }
    fn has_slot(&self) -> bool {
        matches!(self, K::Stmt | K::List | K::Record | K::Do)
    }
}

struct Line {
    text: &'static str,
    eol: Option<K>,
    below: Option<K>,
}

fn l(text: &'static str, eol: Option<K>, below: Option<K>) -> Line {
    Line { text, eol, below }
}

struct Template {
    name: &'static str,
    /// own-line comment admitted above the first line
    above: bool,
    lines: Vec<Line>,
}

fn templates() -> Vec<Template> {
    use K::*;
    let s = Some;
    vec![
        Template {
            name: "statements",
            above: true,
            lines: vec![l("x = 1", s(Stmt), s(Stmt)), l("y = [1, 2]", s(Stmt), s(Stmt)), l("output z = x + y", s(Stmt), s(Stmt))],
        },
        Template {
            name: "list-trailing-comma",
            above: true,
            lines: vec![l("a = [", s(List), s(List)), l("  1,", s(List), s(List)), l("  2,", s(List), s(List)), l("]", s(Stmt), s(Stmt))],
        },
        Template {
            name: "list-no-trailing-comma",
            above: false,
            lines: vec![l("a = [", s(List), s(List)), l("  1,", s(List), s(List)), l("  2", s(List), s(List)), l("]", s(Stmt), None)],
        },
        Template {
            name: "record",
            above: false,
            lines: vec![l("r = {", s(Record), s(Record)), l("  k: 1,", s(Record), s(Record)), l("  j,", s(Record), s(Record)), l("  ...m", s(Record), s(Record)), l("}", s(Stmt), s(Stmt))],
        },
        Template {
            name: "do-block",
            above: false,
            lines: vec![
                l("d = do {", s(Do), s(Do)),
                l("  t = 1", s(Do), s(Do)),
                l("  u = t + 1", s(Do), s(Do)),
                l("  return u", None, None),
                l("}", s(Stmt), s(Stmt)),
            ],
        },
        // statements that begin with a negation once the formatter drops redundant parentheses:
        // a line starting with `-` would continue the line before it, also across comment lines
        Template {
            name: "do-block-negation",
            above: false,
            lines: vec![
                l("d = do {", s(Do), s(Do)),
                l("  t = 1", s(Do), s(Do)),
                l("  (-t)", s(Do), s(Do)),
                l("  (-t) + 2", s(Do), s(Do)),
                l("  return (-t)", None, None),
                l("}", s(Stmt), s(Stmt)),
            ],
        },
        Template {
            name: "statements-negation",
            above: true,
            lines: vec![l("x = 1", s(Stmt), s(Stmt)), l("(-x) + 2", s(Stmt), s(Stmt)), l("(-x)", s(Stmt), s(Stmt)), l("y = 2", s(Stmt), s(Stmt))],
        },
        Template {
            name: "nested",
            above: true,
            lines: vec![
                l("cfg = {", s(Record), s(Record)),
                l("  items: [", s(List), s(List)),
                l("    {a: 1},", s(List), s(List)),
                l("    [2, 3],", s(List), s(List)),
                l("  ],", s(Record), s(Record)),
                l("  run: x => do {", s(Do), s(Do)),
                l("    y = [", s(List), s(List)),
                l("      x,", s(List), s(List)),
                l("    ]", s(Do), s(Do)),
                l("    return y", None, None),
                l("  },", s(Record), s(Record)),
                l("}", s(Stmt), s(Stmt)),
                l("output cfg", s(Stmt), s(Stmt)),
            ],
        },
        Template {
            name: "list-in-call-and-via",
            above: false,
            lines: vec![
                l("w = sum([", s(List), s(List)),
                l("  1,", s(List), s(List)),
                l("]) + ([", s(List), s(List)),
                l("  2,", s(List), s(List)),
                l("] via (v => v * 2) into sum)", s(Stmt), s(Stmt)),
            ],
        },
        Template {
            name: "silent-infix",
            above: false,
            lines: vec![l("s = 1 +", s(Silent("infix-continuation")), s(Silent("infix-continuation"))), l("  2", s(Stmt), s(Stmt))],
        },
        Template {
            name: "silent-infix-leading-operator",
            above: false,
            lines: vec![l("s = 1", s(Silent("infix-continuation")), s(Silent("infix-continuation"))), l("  + 2", s(Stmt), s(Stmt))],
        },
        Template {
            name: "silent-call",
            above: false,
            lines: vec![
                l("c = f(", s(Silent("call-arguments")), s(Silent("call-arguments"))),
                l("  1,", s(Silent("call-arguments")), s(Silent("call-arguments"))),
                l("  2", s(Silent("call-arguments")), s(Silent("call-arguments"))),
                l(")", s(Stmt), s(Stmt)),
            ],
        },
        Template {
            name: "silent-arrow",
            above: false,
            lines: vec![l("g = x =>", s(Silent("after-arrow")), s(Silent("after-arrow"))), l("  x + 1", s(Stmt), s(Stmt))],
        },
        Template {
            name: "silent-conditional",
            above: false,
            lines: vec![
                l("k = if x", s(Silent("conditional")), s(Silent("conditional"))),
                l("  then 1", s(Silent("conditional")), s(Silent("conditional"))),
                l("  else 2", s(Stmt), s(Stmt)),
            ],
        },
        Template {
            name: "silent-parens",
            above: false,
            lines: vec![l("p = (", s(Silent("parentheses")), s(Silent("parentheses"))), l("  1", s(Silent("parentheses")), s(Silent("parentheses"))), l(")", s(Stmt), s(Stmt))],
        },
        Template {
            name: "silent-record-colon",
            above: false,
            lines: vec![l("r = {", s(Record), s(Record)), l("  k:", s(Silent("record-value")), s(Silent("record-value"))), l("    1,", s(Record), s(Record)), l("}", s(Stmt), s(Stmt))],
        },
        Template {
            name: "silent-params",
            above: false,
            lines: vec![l("h = (a,", s(Silent("parameter-list")), s(Silent("parameter-list"))), l("  b) => a", s(Stmt), s(Stmt))],
        },
        Template {
            name: "silent-access",
            above: false,
            lines: vec![l("i = xs[", s(Silent("index-brackets")), s(Silent("index-brackets"))), l("0", s(Silent("index-brackets")), s(Silent("index-brackets"))), l("]", s(Stmt), s(Stmt))],
        },
        Template { name: "empty-list", above: false, lines: vec![l("e = [", s(Empty("list")), s(Empty("list"))), l("]", s(Stmt), s(Stmt))] },
        Template { name: "empty-record", above: false, lines: vec![l("e = {", s(Empty("record")), s(Empty("record"))), l("}", s(Stmt), s(Stmt))] },
    ]
}

#[derive(Clone, Copy, Debug, PartialEq, Eq)]
struct Slot {
    /// line index; usize::MAX = above the first line
    line: usize,
    eol: bool,
    kind: K,
}

fn slots(t: &Template) -> Vec<Slot> {
    let mut v = vec![];
    if t.above {
        v.push(Slot { line: usize::MAX, eol: false, kind: K::Stmt });
    }
    for (i, ln) in t.lines.iter().enumerate() {
        if let Some(k) = ln.eol {
            v.push(Slot { line: i, eol: true, kind: k });
        }
        if let Some(k) = ln.below {
            v.push(Slot { line: i, eol: false, kind: k });
        }
    }
    v
}

const TEXTS: [&str; 6] = ["//c{}", "// c{} with \"quotes\" and 'more'", "//c{} // nested // slashes", "// c{} \u{e9}\u{1f600}", "//   c{}   ", "//c{}[1, {2}]"];

fn comment_text(n: usize) -> String {
    TEXTS[n % TEXTS.len()].replace("{}", &n.to_string()).trim_end().to_string()
}

/// Render the template with comments in the chosen slots. Returns (source, [(comment, kind)]).
fn render(t: &Template, chosen: &[Slot], double: bool) -> (String, Vec<(String, K)>) {
    let mut out = String::new();
    let mut placed = vec![];
    let mut n = 0;
    let mut next = |kind: K, placed: &mut Vec<(String, K)>| {
        let c = comment_text(n);
        n += 1;
        placed.push((c.clone(), kind));
        c
    };
    if let Some(s) = chosen.iter().find(|s| s.line == usize::MAX) {
        out.push_str(&next(s.kind, &mut placed));
        out.push('\n');
        if double {
            out.push_str(&next(s.kind, &mut placed));
            out.push('\n');
        }
    }
    for (i, ln) in t.lines.iter().enumerate() {
        out.push_str(ln.text);
        if let Some(s) = chosen.iter().find(|s| s.line == i && s.eol) {
            // index brackets admit a comment only directly before the line break (no blank)
            if s.kind != K::Silent("index-brackets") {
                out.push(' ');
            }
            out.push_str(&next(s.kind, &mut placed));
        }
        out.push('\n');
        if let Some(s) = chosen.iter().find(|s| s.line == i && !s.eol) {
            let indent: String = t.lines.get(i + 1).map(|l| l.text.chars().take_while(|c| *c == ' ').collect()).unwrap_or_default();
            out.push_str(&indent);
            out.push_str(&next(s.kind, &mut placed));
            out.push('\n');
            if double {
                out.push_str(&indent);
                out.push_str(&next(s.kind, &mut placed));
                out.push('\n');
            }
        }
    }
    (out, placed)
}

fn judge(ctx: &Ctx, path: &str, src: &str, placed: &[(String, K)], out: &str, width: Option<usize>, tname: &str) {
    let want = scan_comments(src);
    let got = scan_comments(out);
    if want == got {
        return;
    }
    // Is the loss exactly the comments placed in slot-less positions (and nothing else wrong)?
    let slotless: Vec<&(String, K)> = placed.iter().filter(|(_, k)| !k.has_slot()).collect();
    let mut expected_if_only_slotless_lost: Vec<String> = want.clone();
    expected_if_only_slotless_lost.retain(|c| !slotless.iter().any(|(t, _)| t == c));
    if got == expected_if_only_slotless_lost && !slotless.is_empty() {
        for (c, k) in slotless {
            ctx.violation(Violation {
                kind: "comment-lost".into(),
                class: k.class(),
                input: format!("[{}] {}", path, src),
                expected: format!("comment {:?} survives", c),
                observed: format!("missing from the output (all other comments intact): {}", out),
                case: json!({"src": src, "width": width, "path": path}),
            });
        }
        return;
    }
    ctx.violation(Violation {
        kind: "comments-changed".into(),
        class: format!("{}:{}", path, tname),
        input: format!("{} @ width {:?}", src, width),
        expected: format!("{:?}", want),
        observed: format!("{:?}   [formatted: {}]", got, out),
        case: json!({"src": src, "width": width, "path": path}),
    });
}

fn check_case(ctx: &Ctx, t: &Template, chosen: &[Slot], double: bool, max_width: usize) {
    let (src, placed) = render(t, chosen, double);
    check_case_text(ctx, t, chosen, src.clone(), &placed, max_width);
    // the same program with Windows line endings (the grammar admits "\r\n" wherever it admits "\n")
    check_case_text(ctx, t, chosen, src.replace('\n', "\r\n"), &placed, max_width);
}

fn check_case_text(ctx: &Ctx, t: &Template, chosen: &[Slot], src: String, placed: &[(String, K)], max_width: usize) {
    // the input must be accepted by the parser, otherwise the slot annotation is wrong
    if parse_program(&src, true).is_err() {
        ctx.machinery_error(format!("template {} with slots {:?} does not parse:\n{}", t.name, chosen, src));
        return;
    }
    ctx.nontrivial(&src);
    let mut seen = std::collections::BTreeSet::new();
    let mut widths: Vec<Option<usize>> = (1..=max_width).map(Some).collect();
    widths.push(None);
    for w in widths {
        ctx.count(1);
        match fmt_lib(&src, w) {
            Ok(out) => {
                if seen.insert(out.clone()) {
                    ctx.outcome("distinct-layout");
                    judge(ctx, "lib", &src, &placed, &out, w, t.name);
                }
            }
            Err(e) => ctx.violation(Violation {
                kind: "format-fails".into(),
                class: t.name.into(),
                input: src.clone(),
                expected: "formatted text".into(),
                observed: e,
                case: json!({"src": src, "width": w, "path": "lib"}),
            }),
        }
    }
    ctx.count(1);
    match run_cli_format(&src) {
        Ok(out) => judge(ctx, "cli", &src, &placed, &out, None, t.name),
        Err(e) => ctx.violation(Violation {
            kind: "format-fails".into(),
            class: t.name.into(),
            input: src.clone(),
            expected: "blots --format succeeds".into(),
            observed: e,
            case: json!({"src": src, "width": null, "path": "cli"}),
        }),
    }
    ctx.outcome("case");
}

/// Second family: every node kind x every slot, with a multi-line commented list (or record)
/// placed in that slot (condition of an `if`, operand of an operator, index, callee, lambda body,
/// do-block statement, ...). All comments sit on list items / record entries, so all must survive.
pub fn nested_container_programs() -> Vec<String> {
    use crate::tgen::*;
    let containers = [
        "[\n  1, // la{n}\n  // lb{n}\n  2,\n  // lc{n}\n]",
        "{\n  p: 1, // ra{n}\n  // rb{n}\n  q: 2,\n}",
        "[1, // only{n}\n]",
    ];
    let mut out = vec![];
    let mut n = 0;
    // two levels: parent kind x slot x child kind x slot, container in the child's slot
    let kinds = all_kinds();
    for p in &kinds {
        if !p.is_expr {
            continue;
        }
        for (pi, pslot) in p.slots.iter().enumerate() {
            for c in &kinds {
                if !c.is_expr && *pslot != SlotKind::Spreadable {
                    continue;
                }
                for cj in 0..c.slots.len() {
                    let mut supply = LeafSupply::new();
                    let c_children: Vec<T> = (0..c.slots.len()).map(|j| if j == cj { T::id("ZZZ") } else { supply.leaf() }).collect();
                    let c_tree = (c.build)(c_children);
                    let mut c_opt = Some(c_tree);
                    let p_children: Vec<T> = (0..p.slots.len()).map(|i| if i == pi { c_opt.take().unwrap() } else { supply.leaf() }).collect();
                    let tree = (p.build)(p_children);
                    let text = tree.full();
                    n += 1;
                    out.push(text.replace("ZZZ", &containers[n % containers.len()].replace("{n}", &n.to_string())));
                }
            }
        }
    }
    for k in all_kinds() {
        if !k.is_expr {
            continue;
        }
        for slot in 0..k.slots.len() {
            let mut supply = LeafSupply::new();
            let children: Vec<T> = (0..k.slots.len()).map(|i| if i == slot { T::id("ZZZ") } else { supply.leaf() }).collect();
            let tree = (k.build)(children);
            let text = tree.full();
            for c in containers {
                n += 1;
                let filled = text.replace("ZZZ", &c.replace("{n}", &n.to_string()));
                out.push(filled.clone());
                out.push(format!("v = {}", filled));
            }
        }
    }
    out
}

fn check_nested(ctx: &Ctx, src: &str, max_width: usize, class: &'static str) {
    if parse_program(src, true).is_err() {
        ctx.outcome("nested-container-input-unparsable");
        return;
    }
    ctx.outcome("nested-container-case");
    ctx.nontrivial(src);
    let placed: Vec<(String, K)> = scan_comments(src).into_iter().map(|c| (c, K::List)).collect();
    let mut seen = std::collections::BTreeSet::new();
    let mut widths: Vec<Option<usize>> = (1..=max_width).step_by(3).map(Some).collect();
    widths.push(None);
    for w in widths {
        ctx.count(1);
        match fmt_lib(src, w) {
            Ok(out) => {
                if seen.insert(out.clone()) {
                    judge(ctx, "lib", src, &placed, &out, w, class);
                }
            }
            Err(e) => ctx.violation(Violation { kind: "format-fails".into(), class: "nested-container".into(), input: src.to_string(), expected: "formatted text".into(), observed: e, case: json!({"src": src, "width": w, "path": "lib"}) }),
        }
    }
    ctx.count(1);
    match run_cli_format(src) {
        Ok(out) => judge(ctx, "cli", src, &placed, &out, None, class),
        Err(e) => ctx.violation(Violation { kind: "format-fails".into(), class: "nested-container".into(), input: src.to_string(), expected: "blots --format succeeds".into(), observed: e, case: json!({"src": src, "width": null, "path": "cli"}) }),
    }
}

/// Depth family: a commented list / record under d levels of every wrapper (operators on either side,
/// postfix chains, conditionals, calls, containers, spreads, lambdas, a rotation of all of them), for
/// every d up to 12 and selected larger depths - comments must survive however far below the
/// statement root they sit and however far to the right the layout has moved.
pub fn deep_commented_programs(thorough: bool) -> Vec<String> {
    let containers = ["[\n  1, // first\n  2 // second\n]", "{\n  p: 1, // first\n  // own line\n  q: 2\n}", "[\n  // lead\n  1\n]"];
    let mut depths: Vec<usize> = (1..=12).collect();
    depths.extend(if thorough { vec![13, 16, 20, 24, 31, 32, 33, 34, 40, 48] } else { vec![16, 33, 40] });
    type W = (&'static str, fn(&str) -> String);
    let wrappers: Vec<W> = vec![
        ("left-chain", |s| format!("{} + a", s)),
        ("right-chain", |s| format!("a + ({})", s)),
        ("index", |s| format!("({})[0]", s)),
        ("field", |s| format!("{{k: {}}}.k", s)),
        ("neg", |s| format!("-({})", s)),
        ("cond", |s| format!("if c then {} else 0", s)),
        ("cond-test", |s| format!("if {} then 1 else 0", s)),
        ("call", |s| format!("f({})", s)),
        ("list", |s| format!("[{}]", s)),
        ("record", |s| format!("{{k: {}}}", s)),
        ("spread", |s| format!("[...{}]", s)),
        ("lambda", |s| format!("x => {}", s)),
        ("via", |s| format!("({}) via g", s)),
        ("coalesce", |s| format!("{} ?? a", s)),
    ];
    let mut out = vec![];
    for (ci, c) in containers.iter().enumerate() {
        for &d in &depths {
            for (wi, (_, w)) in wrappers.iter().enumerate() {
                // quick: the first container under every wrapper, the others under a rotating third
                if !thorough && ci > 0 && (wi + d + ci) % 3 != 0 {
                    continue;
                }
                let mut t = c.to_string();
                for _ in 0..d {
                    t = w(&t);
                }
                out.push(format!("x = {}", t));
            }
            // rotation of all wrappers
            let mut t = c.to_string();
            for i in 0..d {
                t = (wrappers[(i + ci) % wrappers.len()].1)(&t);
            }
            out.push(format!("y = {}", t));
        }
    }
    out
}

/// Size family: wide and long constructs (items, entries, arguments, parameters, statements, terms,
/// nesting levels, characters) at sizes small alphabets never reach; each once plain and once with an
/// end-of-line comment on every 7th element and an own-line comment before every 11th.
pub fn size_family(thorough: bool) -> (Vec<String>, Vec<String>) {
    let sizes: &[usize] = if thorough { &[9, 10, 13, 21, 37, 38, 64, 100, 257] } else { &[10, 38, 100] };
    let mut plain: Vec<String> = vec![];
    let mut with_comments: Vec<String> = vec![];
    for &n in sizes {
        let item = |i: usize| match i % 4 {
            0 => format!("item{}", i),
            1 => format!("{}", i * 3),
            2 => format!("\"s{}\"", i),
            _ => format!("f{}({})", i, i),
        };
        // multi-line container body with optional comments; `sep` ends every element line
        let body = |elems: &[String], sep: &str, commented: bool| -> String {
            let mut t = String::new();
            for (i, e) in elems.iter().enumerate() {
                if commented && i % 11 == 5 {
                    t.push_str(&format!("  // before {}\n", i));
                }
                t.push_str("  ");
                t.push_str(e);
                t.push_str(sep);
                if commented && i % 7 == 3 {
                    t.push_str(&format!(" // after {}", i));
                }
                t.push('\n');
            }
            t
        };
        let items: Vec<String> = (0..n).map(item).collect();
        let entries: Vec<String> = (0..n).map(|i| if i % 5 == 4 { format!("\"key {}\": {}", i, item(i)) } else { format!("k{}: {}", i, item(i)) }).collect();
        let stmts: Vec<String> = (0..n).map(|i| format!("v{} = {}", i, item(i))).collect();
        for commented in [false, true] {
            let mut progs: Vec<String> = vec![];
            progs.push(format!("xs = [\n{}]", body(&items, ",", commented)));
            progs.push(format!("r = {{\n{}}}", body(&entries, ",", commented)));
            progs.push(format!("d = do {{\n{}  return v{}\n}}", body(&stmts, "", commented), n - 1));
            progs.push(format!("{}output last = v{}", body(&stmts, "", commented).replace("\n  ", "\n").trim_start_matches(' ').to_string(), n - 1));
            if !commented {
                progs.push(format!("c = g({})", items.join(", ")));
                progs.push(format!("l = ({}) => p0", (0..n).map(|i| format!("p{}", i)).collect::<Vec<_>>().join(", ")));
                let ops = ["+", "*", "-", "/", "and", "==", "??", "^", "via", "<"];
                let mut chain = String::from("a0");
                for i in 1..n {
                    chain.push_str(&format!(" {} a{}", ops[i % ops.len()], i));
                }
                progs.push(format!("e = {}", chain));
                progs.push(format!("s = \"{}\"", "abc \u{e9}".repeat(n)));
                let depth = n.min(64);
                progs.push(format!("n1 = {}x{}", "[".repeat(depth), "]".repeat(depth)));
                progs.push(format!("n2 = {}x{}", "f(".repeat(depth), ")".repeat(depth)));
                progs.push(format!("n3 = {}x{}", "{k: ".repeat(depth), "}".repeat(depth)));
                progs.push(format!("n4 = {}x", (0..depth).map(|i| format!("p{} => ", i)).collect::<String>()));
                progs.push(format!("n5 = {}x{}", "if c then ".repeat(depth.min(24)), " else y".repeat(depth.min(24))));
                progs.push(format!("n6 = {}x{}", "(1 + ".repeat(depth), ")".repeat(depth)));
            }
            if commented {
                with_comments.extend(progs);
            } else {
                plain.extend(progs);
            }
        }
    }
    (plain, with_comments)
}

/// Every commented program of the single-slot, pair and all-slots families (used by C07/C08).
pub fn commented_programs(thorough: bool) -> Vec<String> {
    let mut out = vec![];
    out.extend(deep_commented_programs(thorough));
    out.extend(nested_container_programs());
    for t in templates() {
        let ss = slots(&t);
        for s in &ss {
            out.push(render(&t, &[*s], false).0);
            if !s.eol {
                out.push(render(&t, &[*s], true).0);
            }
        }
        for i in 0..ss.len() {
            for j in (i + 1)..ss.len() {
                if thorough || (i + j) % 3 == 0 {
                    out.push(render(&t, &[ss[i], ss[j]], false).0);
                }
            }
        }
        out.push(render(&t, &ss, false).0);
        out.push(render(&t, &ss, true).0);
    }
    out
}

pub fn run(ctx: &Ctx, replay: Option<&J>) -> i32 {
    if let Some(r) = replay {
        let src = r["case"]["src"].as_str().unwrap_or("");
        let width = r["case"]["width"].as_u64().map(|w| w as usize);
        let out = if r["case"]["path"].as_str() == Some("cli") { run_cli_format(src) } else { fmt_lib(src, width) };
        println!("source:\n{}\nformatted ({:?}):\n{}", src, width, out.clone().unwrap_or_else(|e| e));
        let want = scan_comments(src);
        let got = out.map(|o| scan_comments(&o)).unwrap_or_default();
        println!("comments in:  {:?}\ncomments out: {:?}", want, got);
        if want != got {
            println!("VIOLATION property=C09 replay=<replayed>");
            return 1;
        }
        return 0;
    }
    let ts = templates();
    let thorough = !ctx.quick();
    let max_width = if thorough { 70 } else { 45 };
    struct Job {
        t: usize,
        chosen: Vec<Slot>,
        double: bool,
    }
    let mut jobs: Vec<Job> = vec![];
    for (ti, t) in ts.iter().enumerate() {
        let ss = slots(t);
        jobs.push(Job { t: ti, chosen: vec![], double: false });
        for s in &ss {
            jobs.push(Job { t: ti, chosen: vec![*s], double: false });
            if !s.eol {
                jobs.push(Job { t: ti, chosen: vec![*s], double: true });
            }
        }
        for i in 0..ss.len() {
            for j in (i + 1)..ss.len() {
                jobs.push(Job { t: ti, chosen: vec![ss[i], ss[j]], double: false });
            }
        }
        if thorough {
            for i in 0..ss.len() {
                for j in (i + 1)..ss.len() {
                    for k in (j + 1)..ss.len() {
                        jobs.push(Job { t: ti, chosen: vec![ss[i], ss[j], ss[k]], double: (i + j + k) % 2 == 0 });
                    }
                }
            }
        }
        jobs.push(Job { t: ti, chosen: ss.clone(), double: false });
        jobs.push(Job { t: ti, chosen: ss.clone(), double: true });
        // all slots that have an AST slot
        let with_slot: Vec<Slot> = ss.iter().filter(|s| s.kind.has_slot()).cloned().collect();
        jobs.push(Job { t: ti, chosen: with_slot, double: false });
    }
    par_for_ctx(ctx, jobs.len(), |i| {
        let j = &jobs[i];
        check_case(ctx, &ts[j.t], &j.chosen, j.double, max_width);
    });
    // positions the templates mark as *not* admitting a comment are probed against the grammar under
    // test: if it accepts a comment there after all, that comment must survive like any other
    {
        let mut probes: Vec<String> = vec![];
        for t in &ts {
            for (li, line) in t.lines.iter().enumerate() {
                let base: Vec<&str> = t.lines.iter().map(|l| l.text).collect();
                if line.eol.is_none() {
                    let mut v: Vec<String> = base.iter().map(|x| x.to_string()).collect();
                    v[li] = format!("{} // probe eol", v[li]);
                    probes.push(v.join("\n"));
                }
                if line.below.is_none() {
                    let mut v: Vec<String> = base.iter().map(|x| x.to_string()).collect();
                    let indent: String = line.text.chars().take_while(|c| *c == ' ').collect();
                    v.insert(li + 1, format!("{}// probe own line", indent));
                    probes.push(v.join("\n"));
                    let mut w: Vec<String> = base.iter().map(|x| x.to_string()).collect();
                    w.insert(li + 1, format!("{}  // probe own line, indented\n{}  // and a second one", indent, indent));
                    probes.push(w.join("\n"));
                }
            }
            if !t.above {
                let base: Vec<&str> = t.lines.iter().map(|l| l.text).collect();
                probes.push(format!("// probe above\n{}", base.join("\n")));
            }
        }
        let accepted: Vec<String> = probes.into_iter().filter(|p| parse_program(p, true).is_ok()).collect();
        ctx.set("unannotated_positions_accepted_by_the_grammar", json!(accepted.len()));
        par_for(accepted.len(), |i| check_nested(ctx, &accepted[i], max_width, "unannotated-position"));
    }
    let nested = nested_container_programs();
    par_for(nested.len(), |i| check_nested(ctx, &nested[i], max_width, "nested-container"));
    let deep = deep_commented_programs(thorough);
    par_for(deep.len(), |i| check_nested(ctx, &deep[i], 120, "depth-family"));
    ctx.set("depth_family_programs", json!(deep.len()));
    let sized: Vec<String> = size_family(thorough).1;
    par_for(sized.len(), |i| check_nested(ctx, &sized[i], 120, "size-family"));
    ctx.set("size_family_programs", json!(sized.len()));
    ctx.set("nested_container_programs", json!(nested.len()));
    ctx.require_outcome("nested-container-case", 300);
    crate::proc::cleanup_scratch();
    ctx.set("templates", json!(ts.iter().map(|t| t.name).collect::<Vec<_>>()));
    ctx.set("cases", json!(jobs.len()));
    ctx.set("max_width", json!(max_width));
    let (s1, _) = render(&ts[1], &slots(&ts[1]), false);
    ctx.sample(json!({"template": ts[1].name, "all_slots": s1}));
    let (s2, _) = render(&ts[4], &slots(&ts[4])[1..3], true);
    ctx.sample(json!({"template": ts[4].name, "two_slots_doubled": s2}));
    ctx.require_outcome("case", 300);
    ctx.require_outcome("distinct-layout", 600);
    ctx.assume("widths 1..45/70 and the default; comment positions are those annotated in the 20 line templates (every position the grammar admits a comment in for statements, lists, records, do-blocks, plus the silent-NEWLINE and empty-container positions)");
    finish(
        ctx,
        "exploration",
        "20 line templates (statements, lists with/without trailing comma, records, do-blocks, nested containers, silent-NEWLINE positions, empty containers) x comment slots (end of line / own line, annotated with the placement kind): the empty set, every single slot (also doubled), every pair, thorough: every triple, all slots, all slots doubled x every width 1..45/70 + default through format_blots (native shim) and once through blots --format; comment sequences extracted by an independent quote-aware scan; plus a depth family (a commented list / record under 1..12, 16, 33, 40 (thorough ..48) levels of 14 wrappers and their rotation) and a size family (lists, records, do-blocks and statement sequences of 10 / 38 / 100 (thorough 9..257) elements with an end-of-line comment on every 7th and an own-line comment before every 11th); distinct = distinct commented sources",
        true,
        None,
    )
}
