//! C05 — function outputs are portable: emitted source reloads to an equivalent function.

use crate::common::*;
use crate::parse::parse_one;
use crate::proc::run_blots;
use crate::tgen::*;
use blots_core::ast::Expr;
use blots_core::values::{SerializableValue, Value};
use serde_json::{Value as J, json};

/// Captured-value configurations: source lines that bind `c` and `d` (and helpers) before `f`.
fn capture_configs() -> Vec<(&'static str, Vec<&'static str>)> {
    vec![
        ("int+closure", vec!["c = 5", "d = n => n + 1"]),
        ("negative+builtin", vec!["c = -1", "d = abs"]),
        ("nan+negative-fraction", vec!["c = 0 / 0", "d = -0.5"]),
        ("infinities", vec!["c = inf", "d = -inf"]),
        ("strings-quotes", vec!["c = \"s\"", "d = \"it's \" + '\"q\"'"]),
        ("strings-both-quotes-non-ascii", vec!["c = \"\u{e9}'\" + '\"\u{1f600}'", "d = {[\"\u{e9}'\" + '\"']: [\"'\u{e9}\" + '\"']}"]),
        ("strings-backslash-newline", vec!["c = \"a\\b\"", "d = \"line\nbreak\""]),
        ("list+record", vec!["c = [1, \"a\", [2]]", "d = {k: 1, \"a b\": [2], x: 3, [\"q'\" + '\"']: 4}"]),
        ("closure-with-captures", vec!["k2 = 10", "c = 2", "d = n => n * k2 + c"]),
        ("null+bool", vec!["c = null", "d = true"]),
        ("large+fraction", vec!["c = 1e21", "d = 0.1"]),
        ("negzero+long", vec!["c = -0", "d = 123456789.123"]),
        ("functions", vec!["c = q => q", "d = [n => n + 1, abs]"]),
        // captured closures whose own body has via / into / where at its top level (inlined into the
        // emitted source as a parenthesised lambda)
        ("closures-with-pipe-bodies", vec!["c = n => ([n, n] via (q => q + 1))", "d = [n => (n into (q => [q])), (l, p) => ([l] where (e => e == p))]"]),
        // integer-valued numbers around the 64-bit integer boundaries (written out with all their digits)
        ("integer-boundaries", vec!["c = 2 ^ 63", "d = [0 - 9.5e18, 9.3e18, 2 ^ 64 - 2048, 2 ^ 53 + 2, 2 ^ 31, 2 ^ 32 + 1, 0 - 2 ^ 63, 1e19, 99999999999999999999]"]),
        // outer variables named like the function's own parameters (they must never be substituted
        // for the parameters, whatever the body re-assigns)
        ("outer-named-like-parameters", vec!["x = \"outer-x\"", "y = [\"outer-y\"]", "c = 1", "d = [2]"]),
    ]
}

fn arg_pool(thorough: bool) -> Vec<&'static str> {
    let mut v = vec!["2", "(-3)", "true", "\"s\"", "[1, 2]", "(n => n + 1)"];
    if thorough {
        v.extend(["0.5", "{k: 1}", "null", "abs", "[true, false]"]);
    }
    v
}

/// Replace the generator's positional leaf names by typed leaves.
fn subst(t: &T) -> T {
    let m = |n: &str| -> T {
        match n {
            "a" | "f" | "m" => T::id("x"),
            "b" | "i" => T::id("y"),
            "c" | "g" => T::id("c"),
            "d" | "j" => T::id("d"),
            "e" => T::num(2.0),
            "h" => T::num(1.0),
            "n" => T::str("s"),
            other => T::id(other),
        }
    };
    fn go(t: &T, m: &dyn Fn(&str) -> T) -> T {
        let b = |x: &T| Box::new(go(x, m));
        match t {
            T::Id(n) => m(n),
            T::Num(_) | T::Str(_) | T::Bool(_) | T::Null | T::Inp(_) => t.clone(),
            T::List(v) => T::List(v.iter().map(|x| go(x, m)).collect()),
            T::Rec(es) => T::Rec(
                es.iter()
                    .map(|e| match e {
                        RE::Kv(k, v) => RE::Kv(k.clone(), go(v, m)),
                        RE::Qkv(k, v) => RE::Qkv(k.clone(), go(v, m)),
                        RE::Dyn(k, v) => RE::Dyn(go(k, m), go(v, m)),
                        // shorthand `{a, ...}` of the generator: use the captured name
                        RE::Short(_) => RE::Short("c".into()),
                        RE::Spread(v) => RE::Spread(go(v, m)),
                    })
                    .collect(),
            ),
            T::Lam(a, body) => T::Lam(a.clone(), b(body)),
            T::Cond(x, y, z) => T::Cond(b(x), b(y), b(z)),
            T::Do(s, r) => T::Do(s.iter().map(|x| go(x, m)).collect(), b(r)),
            T::Assign(n, v) => T::Assign(n.clone(), b(v)),
            T::Call(f, a) => T::Call(b(f), a.iter().map(|x| go(x, m)).collect()),
            T::Index(x, y) => T::Index(b(x), b(y)),
            T::Field(x, f) => T::Field(b(x), f.clone()),
            T::Bin(op, x, y) => T::Bin(*op, b(x), b(y)),
            T::Neg(x) => T::Neg(b(x)),
            T::Bang(x) => T::Bang(b(x)),
            T::NotW(x) => T::NotW(b(x)),
            T::Fact(x) => T::Fact(b(x)),
            T::Spread(x) => T::Spread(b(x)),
            T::Output(x) => T::Output(b(x)),
        }
    }
    go(t, &m)
}

/// Binder-collision kinds: inner binders named like the captured names.
/// Round 10: expression statements AFTER another statement (parent x child only, not in the depth-3 spines).
fn later_statement_kinds() -> Vec<Kind> {
    vec![
        // round 10: expression statements AFTER another statement. A line that starts with `-` (a
        // negation, or a captured negative number inlined for its name) continues the statement
        // before it, so the emitter has to protect it; do-blocks with a single statement never show it
        Kind {
            name: "do-stmt-then-expr-stmt",
            slots: vec![SlotKind::Expr, SlotKind::Expr],
            is_expr: true,
            class: "collision",
            build: |mut v| T::Do(vec![T::Assign("w".into(), Box::new(v.remove(0))), v.remove(0)], Box::new(T::id("w"))),
        },
        Kind {
            name: "do-stmt-then-neg-stmt",
            slots: vec![SlotKind::Expr, SlotKind::Expr],
            is_expr: true,
            class: "collision",
            build: |mut v| T::Do(vec![T::Assign("w".into(), Box::new(v.remove(0))), T::Neg(Box::new(v.remove(0)))], Box::new(T::List(vec![T::id("w")]))),
        },
        Kind {
            name: "do-stmt-then-captured-stmts",
            slots: vec![SlotKind::Expr],
            is_expr: true,
            class: "collision",
            build: |mut v| T::Do(vec![T::Assign("w".into(), Box::new(v.remove(0))), T::id("c"), T::id("d"), T::Neg(Box::new(T::id("c")))], Box::new(T::id("w"))),
        },
        Kind {
            name: "do-expr-stmt-then-captured-stmt",
            slots: vec![SlotKind::Expr],
            is_expr: true,
            class: "collision",
            build: |mut v| T::Do(vec![T::Assign("w".into(), Box::new(T::id("x"))), v.remove(0), T::id("c")], Box::new(T::List(vec![T::id("w"), T::id("d")]))),
        },
    ]
}

fn collision_kinds() -> Vec<Kind> {
    vec![
        Kind { name: "lam-param-c", slots: vec![SlotKind::Expr], is_expr: true, class: "collision", build: |mut v| T::Lam(vec![LArg::Req("c".into())], Box::new(v.remove(0))) },
        Kind {
            name: "lam-param-c-applied",
            slots: vec![SlotKind::Expr],
            is_expr: true,
            class: "collision",
            build: |mut v| T::Call(Box::new(T::Lam(vec![LArg::Req("c".into())], Box::new(v.remove(0)))), vec![T::num(9.0)]),
        },
        Kind {
            name: "lam-optional-param-c",
            slots: vec![SlotKind::Expr],
            is_expr: true,
            class: "collision",
            build: |mut v| T::List(vec![
                T::Call(Box::new(T::Lam(vec![LArg::Opt("c".into())], Box::new(T::List(vec![T::id("c"), v.remove(0)])))), vec![T::num(9.0)]),
                T::Call(Box::new(T::Lam(vec![LArg::Opt("c".into())], Box::new(T::id("c")))), vec![]),
            ]),
        },
        Kind {
            name: "lam-rest-param-d",
            slots: vec![SlotKind::Expr],
            is_expr: true,
            class: "collision",
            build: |mut v| T::Call(Box::new(T::Lam(vec![LArg::Req("q".into()), LArg::Rest("d".into())], Box::new(T::List(vec![T::id("d"), T::id("q"), v.remove(0)])))), vec![T::num(1.0), T::num(2.0)]),
        },
        // the same with the captured name also used outside the inner function (so that it is captured)
        Kind {
            name: "lam-optional-param-c-and-outer-c",
            slots: vec![SlotKind::Expr],
            is_expr: true,
            class: "collision",
            build: |mut v| T::List(vec![
                T::Call(Box::new(T::Lam(vec![LArg::Opt("c".into())], Box::new(T::List(vec![T::id("c"), v.remove(0)])))), vec![T::num(9.0)]),
                T::Call(Box::new(T::Lam(vec![LArg::Req("q".into()), LArg::Opt("c".into())], Box::new(T::List(vec![T::id("q"), T::id("c")])))), vec![T::num(1.0)]),
                T::id("c"),
            ]),
        },
        Kind {
            name: "lam-rest-param-d-and-outer-d",
            slots: vec![SlotKind::Expr],
            is_expr: true,
            class: "collision",
            build: |mut v| T::List(vec![
                T::id("d"),
                T::Call(Box::new(T::Lam(vec![LArg::Rest("d".into())], Box::new(T::List(vec![T::id("d"), v.remove(0)])))), vec![T::num(1.0), T::num(2.0)]),
                T::Call(Box::new(T::Lam(vec![LArg::Req("q".into()), LArg::Rest("d".into())], Box::new(T::List(vec![T::id("d"), T::id("q")])))), vec![T::num(1.0), T::num(2.0)]),
            ]),
        },
        Kind {
            name: "do-shadow-c",
            slots: vec![SlotKind::Expr],
            is_expr: true,
            class: "collision",
            build: |mut v| T::Do(vec![T::Assign("c".into(), Box::new(v.remove(0)))], Box::new(T::id("c"))),
        },
        Kind {
            name: "do-read-then-shadow-c",
            slots: vec![SlotKind::Expr],
            is_expr: true,
            class: "collision",
            build: |mut v| {
                T::Do(
                    vec![T::Assign("t".into(), Box::new(T::id("c"))), T::Assign("c".into(), Box::new(v.remove(0)))],
                    Box::new(T::List(vec![T::id("c"), T::id("t")])),
                )
            },
        },
        Kind {
            name: "do-rebind-from-itself",
            slots: vec![SlotKind::Expr],
            is_expr: true,
            class: "collision",
            build: |mut v| T::Do(vec![T::Assign("c".into(), Box::new(T::List(vec![T::id("c"), v.remove(0)])))], Box::new(T::id("c"))),
        },
        Kind {
            name: "inner-lambda-do-rebind",
            slots: vec![SlotKind::Expr],
            is_expr: true,
            class: "collision",
            build: |mut v| {
                T::Call(
                    Box::new(T::Lam(vec![], Box::new(T::Do(vec![T::Assign("d".into(), Box::new(T::List(vec![T::id("d"), v.remove(0)])))], Box::new(T::id("d")))))),
                    vec![],
                )
            },
        },
        Kind {
            name: "do-shadow-then-lambda",
            slots: vec![SlotKind::Expr],
            is_expr: true,
            class: "collision",
            build: |mut v| {
                T::Do(
                    vec![T::Assign("d".into(), Box::new(v.remove(0)))],
                    Box::new(T::Call(Box::new(T::Lam(vec![], Box::new(T::List(vec![T::id("c"), T::id("d")])))), vec![])),
                )
            },
        },
        // a do-block as a sub-expression that re-assigns an already bound name (a parameter, a captured
        // name, a local of the enclosing block), with that name used again after the block
        Kind {
            name: "do-subexpr-rebind-param-then-use",
            slots: vec![SlotKind::Expr],
            is_expr: true,
            class: "collision",
            build: |mut v| T::List(vec![T::Do(vec![T::Assign("x".into(), Box::new(T::List(vec![T::id("x"), v.remove(0)])))], Box::new(T::id("x"))), T::id("x")]),
        },
        Kind {
            name: "do-subexpr-rebind-captured-then-use",
            slots: vec![SlotKind::Expr],
            is_expr: true,
            class: "collision",
            build: |mut v| T::List(vec![T::Do(vec![T::Assign("c".into(), Box::new(T::List(vec![T::id("c"), v.remove(0)])))], Box::new(T::id("c"))), T::id("c"), T::id("x")]),
        },
        Kind {
            name: "nested-do-rebind-local-then-use",
            slots: vec![SlotKind::Expr],
            is_expr: true,
            class: "collision",
            build: |mut v| {
                T::Do(
                    vec![
                        T::Assign("t".into(), Box::new(T::id("x"))),
                        T::Assign("u".into(), Box::new(T::Do(vec![T::Assign("t".into(), Box::new(T::List(vec![T::id("t"), v.remove(0)])))], Box::new(T::id("t"))))),
                    ],
                    Box::new(T::List(vec![T::id("t"), T::id("u")])),
                )
            },
        },
        Kind {
            name: "rec-shorthand-c",
            slots: vec![SlotKind::Expr],
            is_expr: true,
            class: "collision",
            build: |mut v| T::Rec(vec![RE::Short("c".into()), RE::Kv("j".into(), v.remove(0))]),
        },
        Kind {
            name: "postfix-on-captured",
            slots: vec![SlotKind::Expr],
            is_expr: true,
            class: "collision",
            build: |mut v| T::List(vec![T::Fact(Box::new(T::id("c"))), T::Field(Box::new(T::id("d")), "k".into()), T::Index(Box::new(T::id("c")), Box::new(v.remove(0)))]),
        },
    ]
}

struct Case {
    body: String,
    class: String,
    /// syntactic predicate: the body's top-level operator chain (operands written without
    /// parentheses) contains via / into / where
    root_pipe: bool,
}

fn ends_open_t(t: &T) -> bool {
    match t {
        T::Lam(..) | T::Cond(..) | T::Assign(..) => true,
        T::Bin(_, _, r) => ends_open_t(r),
        T::Neg(x) | T::Bang(x) | T::NotW(x) => ends_open_t(x),
        _ => false,
    }
}

/// Is a binary-operator child written without parentheses under `parent` (by the table of C10)?
fn bare_operand(parent: blots_core::ast::BinaryOp, child: &T, is_left: bool) -> bool {
    match child {
        T::Bin(cop, ..) => {
            let (pl, pright) = spec_level(parent);
            let (cl, _) = spec_level(*cop);
            if cl < pl {
                return false;
            }
            if cl == pl && (is_left == pright) {
                return false;
            }
            !(is_left && ends_open_t(child))
        }
        _ => false,
    }
}

fn root_pipe(t: &T) -> bool {
    use blots_core::ast::BinaryOp::*;
    match t {
        T::Bin(op, l, r) => {
            matches!(op, Via | Into | Where) || (bare_operand(*op, l, true) && root_pipe(l)) || (bare_operand(*op, r, false) && root_pipe(r))
        }
        _ => false,
    }
}

/// Emit `f` from a session the way outputs are written, returning the JSON text.
fn emit(sess: &Session, name: &str) -> Result<String, String> {
    let v: Value = sess.env.get(name).ok_or("function not bound")?;
    let sv = SerializableValue::from_value(&v, &sess.heap.borrow()).map_err(|e| e.to_string())?;
    serde_json::to_string(&sv.to_json()).map_err(|e| e.to_string())
}

fn check_case(ctx: &Ctx, case: &Case, cfg_name: &str, cfg: &[&str], args: &[&str]) {
    let mut orig = Session::new();
    orig.sv_mode = true;
    for line in cfg {
        if !orig.run(line).is_ok() {
            ctx.machinery_error(format!("capture config {} line {:?} failed", cfg_name, line));
            return;
        }
    }
    let def = format!("f = (x, y) => ({})", case.body);
    let d = orig.run(&def);
    ctx.count(1);
    if !d.is_ok() {
        ctx.outcome("definition-fails-skipped");
        return;
    }
    let viol = |kind: &str, input: String, exp: String, obs: String| {
        ctx.violation(Violation {
            kind: kind.to_string(),
            class: format!("{}|{}", case.class, cfg_name),
            input,
            expected: exp,
            observed: obs,
            case: json!({"config": cfg, "body": case.body}),
        });
    };
    let text = match catch(|| emit(&orig, "f")) {
        Ok(Ok(t)) => t,
        Ok(Err(e)) => {
            viol("emit-fails", def.clone(), "function is serialisable".into(), e);
            return;
        }
        Err(p) => {
            viol("emit-panics", def.clone(), "function is serialisable".into(), p);
            return;
        }
    };
    let j: J = match serde_json::from_str(&text) {
        Ok(j) => j,
        Err(e) => {
            viol("emit-invalid-json", def.clone(), "valid JSON".into(), e.to_string());
            return;
        }
    };
    let fsrc = j.get("__blots_function").and_then(|s| s.as_str()).unwrap_or("").to_string();
    // (1) strict: the emitted text is itself a lambda expression
    let strict = matches!(parse_one(&fsrc).map(|e| e.node), Ok(Expr::Lambda { .. }));
    if !strict {
        ctx.violation(Violation {
            kind: "emitted-text-not-a-lambda".into(),
            class: if case.root_pipe { "body-root-pipe-chain".into() } else { format!("{}|{}", case.class, cfg_name) },
            input: def.clone(),
            expected: "the emitted source, read as one expression, is a function".into(),
            observed: fsrc.clone(),
            case: json!({"config": cfg, "body": case.body}),
        });
    }
    // (1') operational: loading it as an input yields a function
    let mut re = Session::with_inputs(&[("f", j.clone())]);
    re.sv_mode = true;
    let ty = re.run("typeof(inputs.f)");
    if ty != Outcome::Ok("\"function\"".into()) {
        viol("reload-not-a-function", def.clone(), "typeof(inputs.f) == \"function\"".into(), format!("{:?}   [emitted: {}]", ty, fsrc));
        return;
    }
    // (3) emit the reloaded function again and reload that too
    let text2 = catch(|| emit_input(&re, "f"));
    let mut re2 = match &text2 {
        Ok(Ok(t2)) => match serde_json::from_str::<J>(t2) {
            Ok(j2) => {
                let mut s = Session::with_inputs(&[("f", j2)]);
                s.sv_mode = true;
                Some(s)
            }
            Err(_) => None,
        },
        _ => None,
    };
    if re2.is_none() {
        viol("re-emit-fails", def.clone(), "the reloaded function can be emitted again".into(), format!("{:?}", text2));
    }
    ctx.nontrivial(&format!("{}|{}", case.body, cfg_name));
    // (2) behaviour on every argument tuple
    let mut n_ok = 0;
    for a in args {
        for b in args {
            let o1 = orig.run(&format!("f({}, {})", a, b));
            let o2 = re.run(&format!("inputs.f({}, {})", a, b));
            ctx.count(2);
            if o1.is_ok() {
                n_ok += 1;
            }
            if o1.cmp_key() != o2.cmp_key() {
                viol(
                    "behaviour-differs",
                    format!("{} ;; f({}, {})", def, a, b),
                    o1.cmp_key(),
                    format!("{}   [emitted: {}]", o2.cmp_key(), fsrc),
                );
                return;
            }
            if let Some(r2) = re2.as_mut() {
                let o3 = r2.run(&format!("inputs.f({}, {})", a, b));
                ctx.count(1);
                if o1.cmp_key() != o3.cmp_key() {
                    viol(
                        "re-emitted-behaviour-differs",
                        format!("{} ;; f({}, {})", def, a, b),
                        o1.cmp_key(),
                        format!("{}   [first emission: {}]", o3.cmp_key(), fsrc),
                    );
                    return;
                }
            }
        }
    }
    ctx.outcome(if n_ok > 0 { "function-with-successful-calls" } else { "function-all-calls-fail" });
}

fn emit_input(sess: &Session, name: &str) -> Result<String, String> {
    let inputs = sess.env.get("inputs").ok_or("no inputs")?;
    let heap = sess.heap.borrow();
    let rec = inputs.as_record(&heap).map_err(|e| e.to_string())?;
    let v = rec.get(name).ok_or("input missing")?;
    let sv = SerializableValue::from_value(v, &heap).map_err(|e| e.to_string())?;
    serde_json::to_string(&sv.to_json()).map_err(|e| e.to_string())
}

/// The real pipeline `blots p1 | blots p2` for one function.
fn check_pipeline(ctx: &Ctx, case: &Case, cfg_name: &str, cfg: &[&str], args: &[&str]) {
    let p1 = format!("{}\noutput f = (x, y) => ({})\n", cfg.join("\n"), case.body);
    let calls: Vec<String> = args.iter().flat_map(|a| args.iter().map(move |b| format!("inputs.f({}, {})", a, b))).collect();
    // in-process expectation: each call separately (a failing call is skipped in p2)
    let mut orig = Session::new();
    orig.sv_mode = true;
    for line in cfg {
        orig.run(line);
    }
    if !orig.run(&format!("f = (x, y) => ({})", case.body)).is_ok() {
        return;
    }
    let mut expected = vec![];
    let mut ok_calls = vec![];
    for (call, (a, b)) in calls.iter().zip(args.iter().flat_map(|a| args.iter().map(move |b| (a, b)))) {
        if let Outcome::Ok(v) = orig.run(&format!("f({}, {})", a, b)) {
            // only data results can be compared through JSON
            if !v.contains("fn(") && !v.contains("builtin:") && !v.contains("NaN") && !v.contains("inf") {
                // the expectation takes the same JSON route as the observation (record key order is not
                // part of the property, and the harness's JSON maps are sorted)
                let name = format!("pexp{}", expected.len());
                if !orig.run(&format!("output {} = f({}, {})", name, a, b)).is_ok() {
                    continue;
                }
                let Some(sv) = orig.outputs.iter().find(|(n, _)| **n == name).map(|(_, v)| v.clone()) else { continue };
                expected.push(canon_sv(&SerializableValue::from_json(&sv.to_json())));
                ok_calls.push(call.clone());
            }
        }
    }
    if ok_calls.is_empty() {
        return;
    }
    let r1 = run_blots(&[p1.clone()], None, None);
    ctx.count(1);
    if r1.code != Some(0) {
        ctx.violation(Violation { kind: "pipeline-stage1-fails".into(), class: format!("{}|{}", case.class, cfg_name), input: p1, expected: "exit 0".into(), observed: r1.describe(), case: json!({"config": cfg, "body": case.body}) });
        return;
    }
    let p2 = format!("output r = [{}]", ok_calls.join(", "));
    let r2 = run_blots(&[p2.clone()], Some(r1.stdout.as_bytes()), None);
    ctx.count(1);
    ctx.outcome("pipeline-run");
    let got = serde_json::from_str::<J>(r2.stdout.trim()).ok().and_then(|j| j.get("r").cloned());
    let got_canon = got.as_ref().map(|g| canon_sv(&SerializableValue::from_json(g)));
    let want = format!("[{}]", expected.join(", "));
    if r2.code != Some(0) || got_canon.as_deref() != Some(want.as_str()) {
        ctx.violation(Violation {
            kind: "pipeline-differs".into(),
            class: format!("{}|{}", case.class, cfg_name),
            input: format!("blots {:?} | blots {:?}", p1, p2),
            expected: want,
            observed: format!("{:?} / {}", got_canon, r2.describe()),
            case: json!({"config": cfg, "body": case.body}),
        });
    }
}

pub fn run(ctx: &Ctx, replay: Option<&J>) -> i32 {
    let thorough = !ctx.quick();
    let args = arg_pool(thorough);
    if let Some(r) = replay {
        let cfg: Vec<String> = r["case"]["config"].as_array().map(|a| a.iter().filter_map(|s| s.as_str().map(|s| s.to_string())).collect()).unwrap_or_default();
        let cfg_refs: Vec<&str> = cfg.iter().map(|s| s.as_str()).collect();
        let case = Case { body: r["case"]["body"].as_str().unwrap_or("").to_string(), class: "replay".into(), root_pipe: false };
        check_case(ctx, &case, "replay", &cfg_refs, &arg_pool(true));
        let mut s = Session::new();
        for l in &cfg_refs {
            s.run(l);
        }
        s.run(&format!("f = (x, y) => ({})", case.body));
        println!("body: {}\nemitted: {:?}", case.body, emit(&s, "f"));
        return if ctx.violation_count() > 0 {
            println!("VIOLATION property=C05 replay=<replayed>");
            1
        } else {
            0
        };
    }
    let mut stats = GenStats::default();
    let mut kinds = all_kinds();
    kinds.extend(collision_kinds());
    kinds.extend(later_statement_kinds());
    let reps: Vec<Kind> = {
        let mut r = representative_kinds();
        r.extend(collision_kinds());
        r
    };
    let mut trees: Vec<T> = vec![];
    for k in &kinds {
        if k.is_expr {
            let mut s = LeafSupply::new();
            trees.push(with_leaves(k, &mut s));
        }
    }
    trees.extend(single_slot(&kinds, &kinds, &mut stats));
    if thorough {
        trees.extend(spines(&[kinds.clone(), kinds.clone(), reps.clone()], &mut stats));
    } else {
        trees.extend(spines(&[reps.clone(), reps.clone(), reps.clone()], &mut stats));
    }
    let mut cases: Vec<Case> = trees
        .iter()
        .map(|t| {
            let st = subst(t);
            Case { body: st.full(), class: crate::c07::shape_class(t), root_pipe: root_pipe(&st) }
        })
        .collect();
    {
        let mut seen = std::collections::HashSet::new();
        cases.retain(|c| seen.insert(c.body.clone()));
    }
    let cfgs = capture_configs();
    // each body under every capture configuration (quick: the configuration is rotated for the
    // depth-3 spines, all configurations for the rest)
    let mut jobs: Vec<(usize, usize)> = vec![];
    for (ci, c) in cases.iter().enumerate() {
        let level = c.class.matches('@').count();
        let deep = level >= 2;
        for k in 0..cfgs.len() {
            // quick: every configuration for the kinds alone, a rotating third for parent x child
            // bodies, one for the depth-3 spines; thorough: all / all / a rotating quarter
            let pick = if deep {
                if thorough { k % 4 == ci % 4 } else { k == ci % cfgs.len() }
            } else if level == 1 && !thorough {
                (k + ci) % 3 == 0
            } else {
                true
            };
            if pick {
                jobs.push((ci, k));
            }
        }
    }
    par_for_ctx(ctx, jobs.len(), |i| {
        let (ci, k) = jobs[i];
        check_case(ctx, &cases[ci], cfgs[k].0, &cfgs[k].1, &args);
    });
    // captured strings and record keys over the quote alphabet: every word of length <= 4/5 over
    // {', ", a, blank} (the emitted source has to spell a string that holds both quote kinds as a
    // concatenation; every pattern of quote runs occurs)
    {
        let qwords: Vec<String> = crate::alpha::words(&['\'', '"', 'a', ' ', '\u{e9}', '\u{65e5}'], if thorough { 5 } else { 4 }).into_iter().filter(|w| !w.is_empty()).map(|w| w.into_iter().collect()).collect();
        let qbodies = ["[c, x]", "d", "[d, y, c]", "{[c]: x}", "(() => [c, d])()"];
        let qcases: Vec<Case> = qbodies.iter().map(|b| Case { body: b.to_string(), class: "quote-strings".into(), root_pipe: false }).collect();
        par_for_ctx(ctx, qwords.len(), |i| {
            let l1 = format!("c = {}", crate::c14::str_src(&qwords[i]));
            let cfg: Vec<&str> = vec![l1.as_str(), "d = {[c]: c, k: [c]}"];
            for qc in &qcases {
                check_case(ctx, qc, "quote-strings", &cfg, &args[..2]);
            }
        });
        ctx.set("quote_strings", json!(qwords.len()));
    }
    // functions that compare captured values with each other: equality must not depend on where the
    // captured values live (the reloaded function sees fresh copies of everything)
    {
        let twin_cfgs: Vec<Vec<&str>> = vec![
            vec!["mk = (s) => (q) => q + s", "c = mk(\"a\")", "d = mk(\"a\")"],
            vec!["mk = (s) => (q) => [q, s]", "c = mk([1])", "d = mk([1])"],
            vec!["mk = (s) => (q) => s", "c = mk({k: 1})", "d = mk({k: 2})"],
            vec!["mk = (s) => (q) => s(q)", "c = mk(n => n + 1)", "d = mk(n => n + 1)"],
            vec!["c = [1, \"a\"]", "d = [1, \"a\"]"],
            vec!["c = {k: [0 / 0]}", "d = c"],
            vec!["s = \"shared\"", "c = [s, s]", "d = [s, \"sha\" + \"red\"]"],
        ];
        let bodies = ["[c == d, c .== d, c != d, c .!= d]", "[[c] == [d], {k: c} .== {k: d}, [c, x] .== [d, x]]", "len(unique([c, d, c]))", "[includes([c], d), includes([d, x], c)]", "[c .== c, d == d, [c, d] .== [c, d]]", "[ugte(c, d), ulte(c, c)]"];
        let tcases: Vec<Case> = bodies.iter().map(|b| Case { body: b.to_string(), class: "compares-captures".into(), root_pipe: false }).collect();
        par_for_ctx(ctx, twin_cfgs.len(), |i| {
            for tc in &tcases {
                check_case(ctx, tc, "compares-captures", &twin_cfgs[i], &args[..2]);
            }
        });
    }
    // the real pipeline for a spread of functions
    let pipe_jobs: Vec<(usize, usize)> = jobs.iter().cloned().step_by(jobs.len() / if thorough { 3000 } else { 300 } + 1).collect();
    par_for_ctx(ctx, pipe_jobs.len(), |i| {
        let (ci, k) = pipe_jobs[i];
        check_pipeline(ctx, &cases[ci], cfgs[k].0, &cfgs[k].1, &args[..3]);
    });
    ctx.set("bodies", json!(cases.len()));
    ctx.set("capture_configs", json!(cfgs.iter().map(|c| c.0).collect::<Vec<_>>()));
    ctx.set("argument_pool", json!(args));
    ctx.set("function_x_config_cases", json!(jobs.len()));
    ctx.set("generator", json!({"states": stats.states, "transitions": stats.transitions, "complete_trees": stats.complete}));
    for c in cases.iter().step_by(cases.len() / 6 + 1) {
        ctx.sample(json!({"function": format!("f = (x, y) => ({})", c.body), "class": c.class}));
    }
    ctx.require_outcome("function-with-successful-calls", 1000);
    ctx.require_outcome("function-all-calls-fail", 10);
    ctx.require_outcome("pipeline-run", 20);
    ctx.assume("only functions whose free names are parameters, captured values or built-ins are generated (closed after capture); self-recursive and late-bound functions are outside the statement");
    finish(
        ctx,
        "exploration",
        "function bodies = every node kind alone, every parent x child kind in every slot, depth-3 spines (plus binder-collision kinds: inner parameter / do-local / shorthand named like a captured name, postfix on captured values) over typed leaves x, y, captured c, d, literals; x 13 capture configurations (negative, NaN, infinities, -0, strings with both quote kinds / backslash / newline, nested list, record with quoted keys, closures with their own captures, built-ins) x all argument pairs from a 6/11-value pool; original vs from_json(to_json(f)) reloaded into a fresh heap vs re-emitted-and-reloaded; real `blots p1 | blots p2` for a spread; distinct = distinct (body, configuration) pairs whose definition evaluates",
        true,
        None,
    )
}
