//! `mc` — bounded-exhaustive explorer for the blots-lang properties C01..C20.
//!
//!   mc <ID> [--tier quick|thorough]      run the check for one property, write evidence
//!   mc replay <file>                     re-run exactly one recorded case
//!   mc worker <kind>                     crash-isolated worker (stdin/stdout line protocol)

mod alpha;
mod c01;
mod c02;
mod c03;
mod c04;
mod c05;
mod c06;
mod c07;
mod c09;
mod c10;
mod c11;
mod c12;
mod c13;
mod c14;
mod c15;
mod c16;
mod c17;
mod c18;
mod c19;
mod c20;
mod common;
mod tgen;
mod oracle;
mod parse;
mod proc;
mod wasmdrv;

use common::{Ctx, Tier};

fn usage() -> ! {
    eprintln!("usage: mc <C01..C20> [--tier quick|thorough] | mc replay <file> | mc worker <kind>");
    std::process::exit(2);
}

fn run_check(ctx: &Ctx, replay: Option<&serde_json::Value>) -> i32 {
    match ctx.prop.as_str() {
        "C01" => c01::run(ctx, replay),
        "C02" => c02::run(ctx, replay),
        "C03" => c03::run(ctx, replay),
        "C04" => c04::run(ctx, replay),
        "C05" => c05::run(ctx, replay),
        "C06" => c06::run(ctx, replay),
        "C07" => c07::run(ctx, replay, false),
        "C08" => c07::run(ctx, replay, true),
        "C09" => c09::run(ctx, replay),
        "C10" => c10::run(ctx, replay),
        "C11" => c11::run(ctx, replay),
        "C12" => c12::run(ctx, replay),
        "C13" => c13::run(ctx, replay),
        "C14" => c14::run(ctx, replay),
        "C15" => c15::run(ctx, replay),
        "C16" => c16::run(ctx, replay),
        "C17" => c17::run(ctx, replay),
        "C18" => c18::run(ctx, replay),
        "C19" => c19::run(ctx, replay),
        "C20" => c20::run(ctx, replay),
        _ => usage(),
    }
}

fn main() {
    let args: Vec<String> = std::env::args().collect();
    if args.len() < 2 {
        usage();
    }
    common::install_quiet_panic_hook();
    let seed: u64 = std::env::var("VERIF_SEED").ok().and_then(|s| s.parse().ok()).unwrap_or(0);
    match args[1].as_str() {
        "worker" => {
            if args.len() < 3 {
                usage();
            }
            proc::worker_main(&args[2]);
        }
        "replay" => {
            if args.len() < 3 {
                usage();
            }
            let text = std::fs::read_to_string(&args[2]).unwrap_or_else(|e| {
                eprintln!("cannot read {}: {}", args[2], e);
                std::process::exit(2);
            });
            let j: serde_json::Value = serde_json::from_str(&text).unwrap_or_else(|e| {
                eprintln!("cannot parse {}: {}", args[2], e);
                std::process::exit(2);
            });
            let prop = j.get("property").and_then(|p| p.as_str()).unwrap_or("").to_string();
            let mut ctx = Ctx::new(&prop, Tier::Quick, seed);
            ctx.replay_mode = true;
            let code = common::on_big_stack(|| run_check(&ctx, Some(&j)));
            std::process::exit(code);
        }
        id => {
            let mut tier = match std::env::var("VERIF_TIER").ok().as_deref() {
                Some("thorough") => Tier::Thorough,
                _ => Tier::Quick,
            };
            let mut i = 2;
            while i < args.len() {
                match args[i].as_str() {
                    "--tier" => {
                        i += 1;
                        tier = match args.get(i).map(|s| s.as_str()) {
                            Some("quick") => Tier::Quick,
                            Some("thorough") => Tier::Thorough,
                            _ => usage(),
                        };
                    }
                    _ => usage(),
                }
                i += 1;
            }
            let ctx = Ctx::new(id, tier, seed);
            let code = common::on_big_stack(|| run_check(&ctx, None));
            std::process::exit(code);
        }
    }
}
