//! Syntax-tree generator (shape G): harness-side tree type, reference printer (fully
//! parenthesised, never the code under test), conversion to the expected Blots AST, canonical
//! rendering of Blots ASTs, and the node-kind catalogue with the T2/T3/T4 families.
#![allow(dead_code)]

use blots_core::ast::{BinaryOp, Commented, Expr, PostfixOp, RecordEntry, RecordKey, Spanned, SpannedExpr, UnaryOp};
use blots_core::functions::BuiltInFunction;
use blots_core::values::LambdaArg;

#[derive(Clone, Debug, PartialEq)]
pub enum LArg {
    Req(String),
    Opt(String),
    Rest(String),
}

#[derive(Clone, Debug, PartialEq)]
pub enum RE {
    Kv(String, T),
    Qkv(String, T),
    Dyn(T, T),
    Short(String),
    Spread(T),
}

#[derive(Clone, Debug, PartialEq)]
pub enum T {
    Num(f64),
    Str(String),
    Bool(bool),
    Null,
    Id(String),
    Inp(String),
    List(Vec<T>),
    Rec(Vec<RE>),
    Lam(Vec<LArg>, Box<T>),
    Cond(Box<T>, Box<T>, Box<T>),
    Do(Vec<T>, Box<T>),
    Assign(String, Box<T>),
    Call(Box<T>, Vec<T>),
    Index(Box<T>, Box<T>),
    Field(Box<T>, String),
    Bin(BinaryOp, Box<T>, Box<T>),
    Neg(Box<T>),
    Bang(Box<T>),
    NotW(Box<T>),
    Fact(Box<T>),
    Spread(Box<T>),
    Output(Box<T>),
}

pub const ALL_BINOPS: [BinaryOp; 26] = [
    BinaryOp::And,
    BinaryOp::NaturalAnd,
    BinaryOp::Or,
    BinaryOp::NaturalOr,
    BinaryOp::Via,
    BinaryOp::Into,
    BinaryOp::Where,
    BinaryOp::Equal,
    BinaryOp::NotEqual,
    BinaryOp::Less,
    BinaryOp::LessEq,
    BinaryOp::Greater,
    BinaryOp::GreaterEq,
    BinaryOp::DotEqual,
    BinaryOp::DotNotEqual,
    BinaryOp::DotLess,
    BinaryOp::DotLessEq,
    BinaryOp::DotGreater,
    BinaryOp::DotGreaterEq,
    BinaryOp::Add,
    BinaryOp::Subtract,
    BinaryOp::Multiply,
    BinaryOp::Divide,
    BinaryOp::Modulo,
    BinaryOp::Power,
    BinaryOp::Coalesce,
];

pub fn op_text(op: BinaryOp) -> &'static str {
    match op {
        BinaryOp::Add => "+",
        BinaryOp::Subtract => "-",
        BinaryOp::Multiply => "*",
        BinaryOp::Divide => "/",
        BinaryOp::Modulo => "%",
        BinaryOp::Power => "^",
        BinaryOp::Equal => "==",
        BinaryOp::NotEqual => "!=",
        BinaryOp::Less => "<",
        BinaryOp::LessEq => "<=",
        BinaryOp::Greater => ">",
        BinaryOp::GreaterEq => ">=",
        BinaryOp::DotEqual => ".==",
        BinaryOp::DotNotEqual => ".!=",
        BinaryOp::DotLess => ".<",
        BinaryOp::DotLessEq => ".<=",
        BinaryOp::DotGreater => ".>",
        BinaryOp::DotGreaterEq => ".>=",
        BinaryOp::And => "&&",
        BinaryOp::NaturalAnd => "and",
        BinaryOp::Or => "||",
        BinaryOp::NaturalOr => "or",
        BinaryOp::Via => "via",
        BinaryOp::Into => "into",
        BinaryOp::Where => "where",
        BinaryOp::Coalesce => "??",
    }
}

/// The precedence table as the *property* (C10) states it, independent of precedence.rs:
/// (level, right_assoc). Higher = tighter.
pub fn spec_level(op: BinaryOp) -> (u8, bool) {
    use BinaryOp::*;
    match op {
        And | NaturalAnd | Or | NaturalOr | Via | Into | Where => (1, false),
        Equal | NotEqual | Less | LessEq | Greater | GreaterEq | DotEqual | DotNotEqual | DotLess | DotLessEq
        | DotGreater | DotGreaterEq => (2, false),
        Add | Subtract => (3, false),
        Multiply | Divide | Modulo => (4, false),
        Power => (5, true),
        Coalesce => (6, false),
    }
}

fn num_text(n: f64) -> String {
    // harness-side number text: Rust's shortest round-trip form, which the literal grammar accepts
    // for finite non-negative numbers except exponent forms like 1e21 (also accepted: ^"e" integer)
    if n.is_infinite() {
        // a literal too large for a double reads as infinity
        return if n > 0.0 { "1e999".into() } else { "-1e999".into() };
    }
    if n.fract() == 0.0 && n.abs() < 1e15 {
        format!("{:.0}", n)
    } else {
        format!("{:?}", n)
    }
}

fn quote(s: &str) -> String {
    if !s.contains('"') {
        format!("\"{}\"", s)
    } else {
        format!("'{}'", s)
    }
}

impl T {
    pub fn id(s: &str) -> T {
        T::Id(s.to_string())
    }
    pub fn num(n: f64) -> T {
        T::Num(n)
    }
    pub fn str(s: &str) -> T {
        T::Str(s.to_string())
    }
    pub fn bin(op: BinaryOp, a: T, b: T) -> T {
        T::Bin(op, Box::new(a), Box::new(b))
    }
    pub fn call(f: T, args: Vec<T>) -> T {
        T::Call(Box::new(f), args)
    }
    pub fn lam1(x: &str, body: T) -> T {
        T::Lam(vec![LArg::Req(x.to_string())], Box::new(body))
    }

    pub fn is_leaf(&self) -> bool {
        match self {
            T::Num(_) | T::Str(_) | T::Bool(_) | T::Null | T::Id(_) | T::Inp(_) => true,
            T::List(v) => v.is_empty(),
            T::Rec(v) => v.is_empty(),
            _ => false,
        }
    }

    /// Nesting depth (leaf = 1).
    pub fn depth(&self) -> usize {
        let mut d = 0;
        self.for_children(|c| d = d.max(c.depth()));
        d + 1
    }

    pub fn size(&self) -> usize {
        let mut n = 1;
        self.for_children(|c| n += c.size());
        n
    }

    pub fn for_children(&self, mut f: impl FnMut(&T)) {
        match self {
            T::Num(_) | T::Str(_) | T::Bool(_) | T::Null | T::Id(_) | T::Inp(_) => {}
            T::List(v) => v.iter().for_each(&mut f),
            T::Rec(es) => {
                for e in es {
                    match e {
                        RE::Kv(_, v) | RE::Qkv(_, v) | RE::Spread(v) => f(v),
                        RE::Dyn(k, v) => {
                            f(k);
                            f(v)
                        }
                        RE::Short(_) => {}
                    }
                }
            }
            T::Lam(_, b) => f(b),
            T::Cond(a, b, c) => {
                f(a);
                f(b);
                f(c)
            }
            T::Do(s, r) => {
                s.iter().for_each(&mut f);
                f(r)
            }
            T::Assign(_, v) => f(v),
            T::Call(c, a) => {
                f(c);
                a.iter().for_each(&mut f)
            }
            T::Index(a, b) => {
                f(a);
                f(b)
            }
            T::Field(a, _) => f(a),
            T::Bin(_, a, b) => {
                f(a);
                f(b)
            }
            T::Neg(a) | T::Bang(a) | T::NotW(a) | T::Fact(a) | T::Spread(a) | T::Output(a) => f(a),
        }
    }

    /// Reference rendering: every compound operand is parenthesised, one canonical layout.
    pub fn full(&self) -> String {
        let p = |t: &T| -> String {
            if t.is_leaf() {
                t.full()
            } else {
                format!("({})", t.full())
            }
        };
        match self {
            T::Num(n) => num_text(*n),
            T::Str(s) => quote(s),
            T::Bool(b) => b.to_string(),
            T::Null => "null".into(),
            T::Id(s) => s.clone(),
            T::Inp(s) => format!("#{}", s),
            T::List(items) => format!(
                "[{}]",
                items
                    .iter()
                    .map(|i| match i {
                        T::Spread(x) => format!("...{}", p(x)),
                        o => p(o),
                    })
                    .collect::<Vec<_>>()
                    .join(", ")
            ),
            T::Rec(es) => format!(
                "{{{}}}",
                es.iter()
                    .map(|e| match e {
                        RE::Kv(k, v) => format!("{}: {}", k, p(v)),
                        RE::Qkv(k, v) => format!("{}: {}", quote(k), p(v)),
                        RE::Dyn(k, v) => format!("[{}]: {}", p(k), p(v)),
                        RE::Short(n) => n.clone(),
                        RE::Spread(v) => format!("...{}", p(v)),
                    })
                    .collect::<Vec<_>>()
                    .join(", ")
            ),
            T::Lam(args, body) => {
                let a = args
                    .iter()
                    .map(|a| match a {
                        LArg::Req(n) => n.clone(),
                        LArg::Opt(n) => format!("{}?", n),
                        LArg::Rest(n) => format!("...{}", n),
                    })
                    .collect::<Vec<_>>()
                    .join(", ");
                format!("({}) => {}", a, p(body))
            }
            T::Cond(c, a, b) => format!("if {} then {} else {}", p(c), p(a), p(b)),
            T::Do(stmts, ret) => {
                let mut s = String::from("do {\n");
                for (idx, st) in stmts.iter().enumerate() {
                    // statements stay unparenthesised so that assignments read naturally; a later
                    // statement that starts with `-` would continue the line before it, so it is
                    // written in (AST-transparent) parentheses
                    s.push_str("  ");
                    let text = st.full();
                    if idx > 0 && text.starts_with('-') {
                        s.push_str(&format!("({})", text));
                    } else {
                        s.push_str(&text);
                    }
                    s.push('\n');
                }
                s.push_str("  return ");
                s.push_str(&p(ret));
                s.push_str("\n}");
                s
            }
            T::Assign(n, v) => format!("{} = {}", n, p(v)),
            T::Call(f, args) => format!(
                "{}({})",
                p(f),
                args.iter()
                    .map(|i| match i {
                        T::Spread(x) => format!("...{}", p(x)),
                        o => p(o),
                    })
                    .collect::<Vec<_>>()
                    .join(", ")
            ),
            T::Index(a, i) => format!("{}[{}]", p(a), p(i)),
            T::Field(a, f) => format!("{}.{}", p(a), f),
            T::Bin(op, a, b) => format!("{} {} {}", p(a), op_text(*op), p(b)),
            T::Neg(a) => format!("-{}", p(a)),
            T::Bang(a) => format!("!{}", p(a)),
            T::NotW(a) => format!("not {}", p(a)),
            T::Fact(a) => format!("{}!", p(a)),
            T::Spread(a) => format!("...{}", p(a)),
            T::Output(a) => format!("output {}", a.full()),
        }
    }

    /// The Blots AST this tree denotes (what the parser must produce for `full()`).
    pub fn to_expr(&self) -> SpannedExpr {
        let d = Spanned::dummy;
        let b = |t: &T| Box::new(t.to_expr());
        let c = |t: &T| Commented::new(t.to_expr());
        d(match self {
            T::Num(n) => Expr::Number(*n),
            T::Str(s) => Expr::String(s.clone()),
            T::Bool(x) => Expr::Bool(*x),
            T::Null => Expr::Null,
            T::Id(s) => match BuiltInFunction::from_ident(s) {
                Some(bi) => Expr::BuiltIn(bi),
                None => Expr::Identifier(s.clone()),
            },
            T::Inp(s) => Expr::InputReference(s.clone()),
            T::List(items) => Expr::List(items.iter().map(c).collect()),
            T::Rec(es) => Expr::Record(
                es.iter()
                    .map(|e| {
                        Commented::new(match e {
                            RE::Kv(k, v) | RE::Qkv(k, v) => {
                                RecordEntry { key: RecordKey::Static(k.clone()), value: v.to_expr() }
                            }
                            RE::Dyn(k, v) => RecordEntry { key: RecordKey::Dynamic(b(k)), value: v.to_expr() },
                            RE::Short(n) => {
                                RecordEntry { key: RecordKey::Shorthand(n.clone()), value: d(Expr::Null) }
                            }
                            RE::Spread(v) => RecordEntry {
                                key: RecordKey::Spread(Box::new(d(Expr::Spread(b(v))))),
                                value: d(Expr::Null),
                            },
                        })
                    })
                    .collect(),
            ),
            T::Lam(args, body) => Expr::Lambda {
                args: args
                    .iter()
                    .map(|a| match a {
                        LArg::Req(n) => LambdaArg::Required(n.clone()),
                        LArg::Opt(n) => LambdaArg::Optional(n.clone()),
                        LArg::Rest(n) => LambdaArg::Rest(n.clone()),
                    })
                    .collect(),
                body: b(body),
            },
            T::Cond(x, y, z) => Expr::Conditional { condition: b(x), then_expr: b(y), else_expr: b(z) },
            T::Do(s, r) => Expr::DoBlock { statements: s.iter().map(c).collect(), return_expr: Box::new(c(r)) },
            T::Assign(n, v) => Expr::Assignment { ident: n.clone(), value: b(v) },
            T::Call(f, a) => Expr::Call { func: b(f), args: a.iter().map(|t| t.to_expr()).collect() },
            T::Index(a, i) => Expr::Access { expr: b(a), index: b(i) },
            T::Field(a, f) => Expr::DotAccess { expr: b(a), field: f.clone() },
            T::Bin(op, x, y) => Expr::BinaryOp { op: *op, left: b(x), right: b(y) },
            T::Neg(a) => Expr::UnaryOp { op: UnaryOp::Negate, expr: b(a) },
            T::Bang(a) | T::NotW(a) => Expr::UnaryOp { op: UnaryOp::Not, expr: b(a) },
            T::Fact(a) => Expr::PostfixOp { op: PostfixOp::Factorial, expr: b(a) },
            T::Spread(a) => Expr::Spread(b(a)),
            T::Output(a) => Expr::Output { expr: b(a) },
        })
    }
}

/// Canonical S-expression rendering of a Blots AST, ignoring spans and comments.
pub fn expr_canon(e: &SpannedExpr) -> String {
    let mut s = String::new();
    canon(e, &mut s);
    s
}

fn canon(e: &SpannedExpr, o: &mut String) {
    match &e.node {
        Expr::Number(n) => o.push_str(&crate::common::num_repr(*n)),
        Expr::String(s) => o.push_str(&format!("{:?}", s)),
        Expr::Bool(b) => o.push_str(&b.to_string()),
        Expr::Null => o.push_str("null"),
        Expr::Identifier(s) => {
            o.push('$');
            o.push_str(s)
        }
        Expr::InputReference(s) => {
            o.push('#');
            o.push_str(s)
        }
        Expr::BuiltIn(b) => {
            o.push('@');
            o.push_str(b.name())
        }
        Expr::List(items) => {
            o.push_str("(list");
            for i in items {
                o.push(' ');
                canon(&i.node, o);
            }
            o.push(')');
        }
        Expr::Record(es) => {
            o.push_str("(record");
            for en in es {
                o.push(' ');
                match &en.node.key {
                    RecordKey::Static(k) => {
                        o.push_str(&format!("(kv {:?} ", k));
                        canon(&en.node.value, o);
                        o.push(')');
                    }
                    RecordKey::Dynamic(k) => {
                        o.push_str("(dyn ");
                        canon(k, o);
                        o.push(' ');
                        canon(&en.node.value, o);
                        o.push(')');
                    }
                    RecordKey::Shorthand(n) => o.push_str(&format!("(short {})", n)),
                    RecordKey::Spread(x) => {
                        o.push_str("(rspread ");
                        canon(x, o);
                        o.push(')');
                    }
                }
            }
            o.push(')');
        }
        Expr::Lambda { args, body } => {
            o.push_str("(lambda (");
            for (i, a) in args.iter().enumerate() {
                if i > 0 {
                    o.push(' ');
                }
                o.push_str(&a.to_string());
            }
            o.push_str(") ");
            canon(body, o);
            o.push(')');
        }
        Expr::Conditional { condition, then_expr, else_expr } => {
            o.push_str("(if ");
            canon(condition, o);
            o.push(' ');
            canon(then_expr, o);
            o.push(' ');
            canon(else_expr, o);
            o.push(')');
        }
        Expr::DoBlock { statements, return_expr } => {
            o.push_str("(do");
            for s in statements {
                o.push(' ');
                canon(&s.node, o);
            }
            o.push_str(" (return ");
            canon(&return_expr.node, o);
            o.push_str("))");
        }
        Expr::Assignment { ident, value } => {
            o.push_str(&format!("(= {} ", ident));
            canon(value, o);
            o.push(')');
        }
        Expr::Output { expr } => {
            o.push_str("(output ");
            canon(expr, o);
            o.push(')');
        }
        Expr::Call { func, args } => {
            o.push_str("(call ");
            canon(func, o);
            for a in args {
                o.push(' ');
                canon(a, o);
            }
            o.push(')');
        }
        Expr::Access { expr, index } => {
            o.push_str("(index ");
            canon(expr, o);
            o.push(' ');
            canon(index, o);
            o.push(')');
        }
        Expr::DotAccess { expr, field } => {
            o.push_str("(field ");
            canon(expr, o);
            o.push(' ');
            o.push_str(field);
            o.push(')');
        }
        Expr::BinaryOp { op, left, right } => {
            o.push('(');
            o.push_str(op_text(*op));
            o.push(' ');
            canon(left, o);
            o.push(' ');
            canon(right, o);
            o.push(')');
        }
        Expr::UnaryOp { op, expr } => {
            o.push_str(match op {
                UnaryOp::Negate => "(neg ",
                UnaryOp::Not => "(not ",
                UnaryOp::Invert => "(invert ",
            });
            canon(expr, o);
            o.push(')');
        }
        Expr::PostfixOp { expr, .. } => {
            o.push_str("(fact ");
            canon(expr, o);
            o.push(')');
        }
        Expr::Spread(x) => {
            o.push_str("(spread ");
            canon(x, o);
            o.push(')');
        }
    }
}

// ---------------------------------------------------------------------------------------------
// node-kind catalogue

/// What may be placed into a slot.
#[derive(Clone, Copy, PartialEq, Eq, Debug)]
pub enum SlotKind {
    Expr,
    /// list item or call argument: a spread is allowed here too
    Spreadable,
}

#[derive(Clone)]
pub struct Kind {
    pub name: &'static str,
    pub slots: Vec<SlotKind>,
    pub build: fn(Vec<T>) -> T,
    /// may this kind appear in an Expr slot (spread may not)
    pub is_expr: bool,
    /// precedence class used to pick representatives for T4
    pub class: &'static str,
}

fn b0(mut v: Vec<T>) -> (T,) {
    (v.remove(0),)
}

macro_rules! kind {
    ($name:expr, $class:expr, [$($s:ident),*], $is_expr:expr, $build:expr) => {
        Kind { name: $name, slots: vec![$(SlotKind::$s),*], build: $build, is_expr: $is_expr, class: $class }
    };
}

fn unspread(t: T) -> T {
    t
}

pub fn binop_kind(op: BinaryOp) -> Kind {
    macro_rules! k {
        ($v:ident, $n:expr, $c:expr) => {
            if op == BinaryOp::$v {
                return kind!($n, $c, [Expr, Expr], true, |mut v| {
                    let b = v.pop().unwrap();
                    let a = v.pop().unwrap();
                    T::bin(BinaryOp::$v, a, b)
                });
            }
        };
    }
    k!(And, "&&", "logic");
    k!(NaturalAnd, "and", "logic-word");
    k!(Or, "||", "logic");
    k!(NaturalOr, "or", "logic-word");
    k!(Via, "via", "pipe");
    k!(Into, "into", "pipe");
    k!(Where, "where", "pipe");
    k!(Equal, "==", "cmp");
    k!(NotEqual, "!=", "cmp");
    k!(Less, "<", "cmp");
    k!(LessEq, "<=", "cmp");
    k!(Greater, ">", "cmp");
    k!(GreaterEq, ">=", "cmp");
    k!(DotEqual, ".==", "dotcmp");
    k!(DotNotEqual, ".!=", "dotcmp");
    k!(DotLess, ".<", "dotcmp");
    k!(DotLessEq, ".<=", "dotcmp");
    k!(DotGreater, ".>", "dotcmp");
    k!(DotGreaterEq, ".>=", "dotcmp");
    k!(Add, "+", "add");
    k!(Subtract, "-", "sub");
    k!(Multiply, "*", "mul");
    k!(Divide, "/", "div");
    k!(Modulo, "%", "mod");
    k!(Power, "^", "pow");
    k!(Coalesce, "??", "coalesce");
    unreachable!()
}

/// Every compound node kind (leaves are supplied separately).
pub fn all_kinds() -> Vec<Kind> {
    let mut ks: Vec<Kind> = vec![
        kind!("list1", "list", [Spreadable], true, |v| T::List(v)),
        kind!("list2", "list", [Spreadable, Spreadable], true, |v| T::List(v)),
        kind!("rec-kv", "record", [Expr], true, |mut v| T::Rec(vec![RE::Kv("k".into(), v.remove(0))])),
        kind!("rec-quoted", "record", [Expr], true, |mut v| T::Rec(vec![RE::Qkv("k k".into(), v.remove(0))])),
        kind!("rec-dyn", "record", [Expr, Expr], true, |mut v| {
            let b = v.pop().unwrap();
            let a = v.pop().unwrap();
            T::Rec(vec![RE::Dyn(a, b)])
        }),
        kind!("rec-spread", "record", [Expr], true, |mut v| T::Rec(vec![RE::Spread(v.remove(0))])),
        kind!("rec-short-kv", "record", [Expr], true, |mut v| T::Rec(vec![
            RE::Short("a".into()),
            RE::Kv("j".into(), v.remove(0))
        ])),
        kind!("lam1", "lambda", [Expr], true, |mut v| T::Lam(vec![LArg::Req("x".into())], Box::new(v.remove(0)))),
        kind!("lam2", "lambda", [Expr], true, |mut v| T::Lam(
            vec![LArg::Req("x".into()), LArg::Req("y".into())],
            Box::new(v.remove(0))
        )),
        kind!("lam-opt", "lambda", [Expr], true, |mut v| T::Lam(vec![LArg::Opt("x".into())], Box::new(v.remove(0)))),
        kind!("lam-rest", "lambda", [Expr], true, |mut v| T::Lam(
            vec![LArg::Rest("r".into())],
            Box::new(v.remove(0))
        )),
        kind!("lam0", "lambda", [Expr], true, |mut v| T::Lam(vec![], Box::new(v.remove(0)))),
        kind!("cond", "cond", [Expr, Expr, Expr], true, |mut v| {
            let c = v.pop().unwrap();
            let b = v.pop().unwrap();
            let a = v.pop().unwrap();
            T::Cond(Box::new(a), Box::new(b), Box::new(c))
        }),
        kind!("do0", "do", [Expr], true, |mut v| T::Do(vec![], Box::new(v.remove(0)))),
        kind!("do1", "do", [Expr, Expr], true, |mut v| {
            let r = v.pop().unwrap();
            let s = v.pop().unwrap();
            T::Do(vec![s], Box::new(r))
        }),
        kind!("do-assign", "do", [Expr, Expr], true, |mut v| {
            let r = v.pop().unwrap();
            let s = v.pop().unwrap();
            T::Do(vec![T::Assign("w".into(), Box::new(s))], Box::new(r))
        }),
        kind!("assign", "assign", [Expr], true, |mut v| T::Assign("v".into(), Box::new(v.remove(0)))),
        kind!("call0", "call", [Expr], true, |mut v| T::Call(Box::new(v.remove(0)), vec![])),
        kind!("call1", "call", [Expr, Spreadable], true, |mut v| {
            let f = v.remove(0);
            T::Call(Box::new(f), v)
        }),
        kind!("call2", "call", [Expr, Spreadable, Spreadable], true, |mut v| {
            let f = v.remove(0);
            T::Call(Box::new(f), v)
        }),
        kind!("index", "index", [Expr, Expr], true, |mut v| {
            let i = v.pop().unwrap();
            let a = v.pop().unwrap();
            T::Index(Box::new(a), Box::new(i))
        }),
        kind!("field", "field", [Expr], true, |mut v| T::Field(Box::new(v.remove(0)), "k".into())),
        kind!("neg", "neg", [Expr], true, |mut v| T::Neg(Box::new(v.remove(0)))),
        kind!("bang", "bang", [Expr], true, |mut v| T::Bang(Box::new(v.remove(0)))),
        kind!("not", "notword", [Expr], true, |mut v| T::NotW(Box::new(v.remove(0)))),
        kind!("fact", "fact", [Expr], true, |mut v| T::Fact(Box::new(v.remove(0)))),
        kind!("spread", "spread", [Expr], false, |mut v| T::Spread(Box::new(v.remove(0)))),
    ];
    for op in ALL_BINOPS {
        ks.push(binop_kind(op));
    }
    let _ = (b0 as fn(Vec<T>) -> (T,), unspread as fn(T) -> T);
    ks
}

/// One representative per precedence/shape class (used for the deepest spines).
pub fn representative_kinds() -> Vec<Kind> {
    let mut seen = std::collections::BTreeSet::new();
    all_kinds().into_iter().filter(|k| seen.insert(k.class)).collect()
}

/// The distinct leaf identifiers handed out left to right so that operand order is observable.
pub const LEAF_NAMES: [&str; 12] = ["a", "b", "c", "d", "e", "f", "g", "h", "i", "j", "m", "n"];

pub struct LeafSupply {
    next: usize,
}

impl LeafSupply {
    pub fn new() -> Self {
        LeafSupply { next: 0 }
    }
    pub fn leaf(&mut self) -> T {
        let n = LEAF_NAMES[self.next % LEAF_NAMES.len()];
        self.next += 1;
        T::id(n)
    }
}

/// Instantiate `kind` with leaves in every slot.
pub fn with_leaves(kind: &Kind, supply: &mut LeafSupply) -> T {
    let children = kind.slots.iter().map(|_| supply.leaf()).collect();
    (kind.build)(children)
}

/// Every kind with one slot holding a literal leaf (strings that look like identifiers, keywords,
/// phrases, empty; numbers; booleans; null; an input reference) and identifiers elsewhere.
pub fn literal_slot(kinds: &[Kind]) -> Vec<T> {
    let lits = vec![
        T::Str("apple".into()),
        T::Str("_k9".into()),
        T::Str("a b".into()),
        T::Str("if".into()),
        T::Str("true".into()),
        T::Str("".into()),
        T::Str("9a".into()),
        T::Str("\u{e9}t\u{e9}".into()),
        T::Num(1.5),
        T::Num(0.0),
        T::Num(f64::INFINITY),
        T::Num(f64::NEG_INFINITY),
        T::Num(1e-20),
        T::Num(5e-324),
        T::Num(123456789012345680000.0),
        T::Num(0.1 + 0.2),
        T::Num(-2.0),
        T::Bool(true),
        T::Null,
        T::Inp("k".into()),
    ];
    let mut out = vec![];
    for k in kinds {
        for i in 0..k.slots.len() {
            for l in &lits {
                let mut supply = LeafSupply::new();
                let mut children: Vec<T> = k.slots.iter().map(|_| supply.leaf()).collect();
                children[i] = l.clone();
                out.push((k.build)(children));
            }
        }
    }
    out
}

/// Trees whose printed text contains string literals made of the language's own punctuation, placed so
/// that a printer (or a driver) that inspects printed text instead of the tree is misled: a binary
/// operation of two groups, each holding such a string, under every wrapper that needs the operand
/// parenthesised.
pub fn punctuation_string_trees(thorough: bool) -> Vec<T> {
    let pairs: Vec<(&str, &str)> = vec![
        ("(", ")"), (")", "("), ("[", "]"), ("]", "["), ("{", "}"), ("}", "{"), ("\"", "\""), ("'", "'"), ("//", "x"), (",", ","), ("=>", "=>"), ("-", "-"), ("((", "))"), ("\r\n", "\r"), ("a\nb", "\r\n\r\n"),
    ];
    let group = |variant: usize, s: &str| -> T {
        let st = T::Str(s.to_string());
        match variant {
            0 => T::bin(BinaryOp::Add, T::call(T::id("len"), vec![st]), T::num(1.0)),
            1 => T::call(T::id("f"), vec![st]),
            2 => T::bin(BinaryOp::Add, st, T::id("a")),
            3 => T::List(vec![st]),
            _ => T::Rec(vec![RE::Kv("k".into(), st)]),
        }
    };
    let wrap = |w: usize, base: T| -> T {
        match w {
            0 => T::Fact(Box::new(base)),
            1 => T::Index(Box::new(base), Box::new(T::num(0.0))),
            2 => T::Field(Box::new(base), "k".into()),
            3 => T::call(base, vec![T::num(1.0)]),
            4 => T::Neg(Box::new(base)),
            5 => T::NotW(Box::new(base)),
            6 => T::bin(BinaryOp::Power, base, T::num(2.0)),
            7 => T::bin(BinaryOp::Power, T::num(2.0), base),
            8 => T::bin(BinaryOp::Multiply, base, T::id("b")),
            9 => T::bin(BinaryOp::Subtract, T::id("b"), base),
            10 => T::List(vec![T::Spread(Box::new(base))]),
            11 => T::Cond(Box::new(base), Box::new(T::num(1.0)), Box::new(T::num(2.0))),
            _ => T::lam1("x", base),
        }
    };
    let mut out = vec![];
    let variants = if thorough { 5 } else { 3 };
    for (s1, s2) in &pairs {
        for vl in 0..variants {
            for vr in 0..variants {
                for op in [BinaryOp::Add, BinaryOp::Multiply] {
                    for w in 0..13 {
                        out.push(wrap(w, T::bin(op, group(vl, s1), group(vr, s2))));
                    }
                }
            }
        }
    }
    out
}

fn fits(kind: &Kind, slot: SlotKind) -> bool {
    kind.is_expr || slot == SlotKind::Spreadable
}

/// Generator automaton bookkeeping: number of partial-tree states and hole-filling transitions.
#[derive(Default, Clone, Copy, Debug)]
pub struct GenStats {
    pub states: u64,
    pub transitions: u64,
    pub complete: u64,
}

/// All spines of `depth` nested kinds: kind k1 at the root, k2 in slot s1 of k1, k3 in slot s2 of
/// k2, ..., leaves everywhere else. `kinds_per_level[i]` is the catalogue used at level i.
pub fn spines(kinds_per_level: &[Vec<Kind>], stats: &mut GenStats) -> Vec<T> {
    fn go(level: usize, kinds_per_level: &[Vec<Kind>], slot: SlotKind, supply: &mut LeafSupply, stats: &mut GenStats) -> Vec<T> {
        // returns all sub-trees rooted at `level`, each freshly built with its own leaves
        let mut out = vec![];
        for k in &kinds_per_level[level] {
            if !fits(k, slot) {
                continue;
            }
            stats.states += 1; // partial tree with this kind chosen, holes open
            if level + 1 == kinds_per_level.len() {
                let mut s = LeafSupply { next: supply.next };
                stats.transitions += k.slots.len() as u64 + 1;
                out.push(with_leaves(k, &mut s));
                continue;
            }
            for (si, sk) in k.slots.iter().enumerate() {
                let mut inner_supply = LeafSupply { next: supply.next + si };
                let subs = go(level + 1, kinds_per_level, *sk, &mut inner_supply, stats);
                for sub in subs {
                    stats.transitions += k.slots.len() as u64 + 1;
                    let mut leaf_supply = LeafSupply { next: supply.next + 6 };
                    let mut children = vec![];
                    let mut sub_opt = Some(sub);
                    for (j, _) in k.slots.iter().enumerate() {
                        if j == si {
                            children.push(sub_opt.take().unwrap());
                        } else {
                            children.push(leaf_supply.leaf());
                        }
                    }
                    out.push((k.build)(children));
                }
            }
        }
        out
    }
    let mut supply = LeafSupply::new();
    let v = go(0, kinds_per_level, SlotKind::Expr, &mut supply, stats);
    stats.complete += v.len() as u64;
    v
}

/// Full product family: every parent kind with every slot filled independently by a leaf or by any
/// child kind instantiated with leaves.
pub fn products(parents: &[Kind], children: &[Kind], stats: &mut GenStats) -> Vec<T> {
    let mut out = vec![];
    for p in parents {
        if !p.is_expr {
            continue;
        }
        let n = p.slots.len();
        // options per slot: None (leaf) or Some(child kind index)
        let mut opts: Vec<Vec<Option<usize>>> = vec![];
        for sk in &p.slots {
            let mut o = vec![None];
            for (ci, c) in children.iter().enumerate() {
                if fits(c, *sk) {
                    o.push(Some(ci));
                }
            }
            opts.push(o);
        }
        let mut idx = vec![0usize; n];
        stats.states += 1;
        loop {
            let mut supply = LeafSupply::new();
            let mut kids = vec![];
            for s in 0..n {
                match opts[s][idx[s]] {
                    None => kids.push(supply.leaf()),
                    Some(ci) => kids.push(with_leaves(&children[ci], &mut supply)),
                }
                stats.transitions += 1;
                stats.states += 1;
            }
            out.push((p.build)(kids));
            // increment
            let mut s = 0;
            loop {
                if s == n {
                    break;
                }
                idx[s] += 1;
                if idx[s] < opts[s].len() {
                    break;
                }
                idx[s] = 0;
                s += 1;
            }
            if s == n {
                break;
            }
        }
    }
    stats.complete += out.len() as u64;
    out
}

/// Single-slot variation: parent with exactly one slot holding a child kind, leaves elsewhere.
pub fn single_slot(parents: &[Kind], children: &[Kind], stats: &mut GenStats) -> Vec<T> {
    spines(&[parents.to_vec(), children.to_vec()], stats)
}
