//! Program-level parsing helpers that mirror what the drivers do with pest pairs.
#![allow(dead_code)]

use blots_core::ast::{Expr, Spanned, SpannedExpr};
use blots_core::expressions::{pairs_to_expr, pairs_to_expr_with_comments};
use blots_core::parser::{Rule, get_pairs};

#[derive(Debug, Clone)]
pub enum Stmt {
    Expr(SpannedExpr),
    Comment(String),
}

/// Parse a program into its statements (comments kept as items when `keep_comment_stmts`).
pub fn parse_program(src: &str, with_comments: bool) -> Result<Vec<Stmt>, String> {
    let pairs = get_pairs(src).map_err(|e| format!("parse error: {}", e))?;
    let mut out = vec![];
    for pair in pairs {
        if pair.as_rule() != Rule::statement {
            continue;
        }
        let mut inner = pair.into_inner();
        let Some(first) = inner.next() else { continue };
        match first.as_rule() {
            Rule::comment => out.push(Stmt::Comment(first.as_str().to_string())),
            Rule::output_declaration => {
                let e = if with_comments {
                    pairs_to_expr_with_comments(first.into_inner())
                } else {
                    pairs_to_expr(first.into_inner())
                }
                .map_err(|e| format!("ast error: {}", e))?;
                out.push(Stmt::Expr(Spanned::dummy(Expr::Output { expr: Box::new(e) })));
            }
            _ => {
                let e = if with_comments {
                    pairs_to_expr_with_comments(first.into_inner())
                } else {
                    pairs_to_expr(first.into_inner())
                }
                .map_err(|e| format!("ast error: {}", e))?;
                out.push(Stmt::Expr(e));
            }
        }
    }
    Ok(out)
}

/// Only the expression statements of a program, parsed without comment preservation.
pub fn parse_exprs(src: &str) -> Result<Vec<SpannedExpr>, String> {
    Ok(parse_program(src, false)?
        .into_iter()
        .filter_map(|s| match s {
            Stmt::Expr(e) => Some(e),
            _ => None,
        })
        .collect())
}

/// Parse a text that must consist of exactly one expression statement.
pub fn parse_one(src: &str) -> Result<SpannedExpr, String> {
    let mut v = parse_exprs(src)?;
    if v.len() != 1 {
        return Err(format!("expected exactly one statement, found {}", v.len()));
    }
    Ok(v.remove(0))
}

/// Independent, quote-aware scan for `//` comments (Blots strings have no escapes).
/// Returns the comment texts in order.
pub fn scan_comments(src: &str) -> Vec<String> {
    let mut out = vec![];
    let chars: Vec<char> = src.chars().collect();
    let mut i = 0;
    let mut quote: Option<char> = None;
    while i < chars.len() {
        let c = chars[i];
        match quote {
            Some(q) => {
                if c == q {
                    quote = None;
                }
                i += 1;
            }
            None => {
                if c == '"' || c == '\'' {
                    quote = Some(c);
                    i += 1;
                } else if c == '/' && i + 1 < chars.len() && chars[i + 1] == '/' {
                    let mut j = i;
                    let mut text = String::new();
                    while j < chars.len() && chars[j] != '\n' && !(chars[j] == '\r' && j + 1 < chars.len() && chars[j + 1] == '\n') {
                        text.push(chars[j]);
                        j += 1;
                    }
                    out.push(text);
                    i = j;
                } else {
                    i += 1;
                }
            }
        }
    }
    out
}
