//! C19 — CLI contract: exit status, outputs object, input merging, #name.
//!
//! Reference model of the contract (statement outcomes -> exit status and outputs object;
//! left-to-right input merge with value_n numbering; #name == inputs.name); every model trace
//! (script x input set x invocation mode) is replayed against the real `blots` binary.

use crate::alpha::words;
use crate::common::*;
use crate::proc::{run_blots, scratch_file};
use indexmap::IndexMap;
use serde_json::{Value as J, json};

const ALPHABET: [&str; 13] = [
    "a = 1",
    "output b = 2",
    "output a",
    "output b",
    "c = nope",
    "output f = x => x + zz",
    "a = = 1",
    "// just a comment",
    "output d = inputs.k",
    "output g = [#k, inputs.k, #missing, inputs.missing]",
    "output v = [#value_1, inputs.value_2, #j]",
    "output whole = inputs",
    // a binding made inside the value of an output declaration is a top-level binding like any other
    "output t = (a = 10) + 5",
];

#[derive(Clone, Debug)]
struct InputSet {
    name: &'static str,
    stdin: Option<&'static str>,
    flags: Vec<&'static str>,
}

fn input_sets() -> Vec<InputSet> {
    let i = |name, stdin, flags: &[&'static str]| InputSet { name, stdin, flags: flags.to_vec() };
    vec![
        i("none", None, &[]),
        i("one-object", None, &["{\"k\": 1}"]),
        i("override", None, &["{\"k\": 1}", "{\"k\": 2}"]),
        i("partial-override", None, &["{\"k\": 1, \"j\": 5}", "{\"j\": 6}"]),
        i("array", None, &["[1, 2]"]),
        i("two-scalars", None, &["5", "\"s\""]),
        i("object-scalar-object", None, &["{\"k\": 1}", "9", "{\"k\": 3, \"value_1\": \"explicit\"}"]),
        i("stdin-object", Some("{\"k\": \"from-stdin\"}"), &[]),
        i("stdin-then-flag", Some("{\"k\": 1, \"j\": 1}"), &["{\"k\": 2}"]),
        i("stdin-scalar-then-flag-scalar", Some("7"), &["8"]),
        i("stdin-empty", Some(""), &["{\"k\": 4}"]),
        i("bad-flag", None, &["{\"k\": 1}", "not json"]),
        i("bad-stdin", Some("{oops"), &[]),
        i("null-value", None, &["{\"k\": null}"]),
        i("null-overrides-value", None, &["{\"k\": 5, \"j\": 1}", "{\"k\": null}"]),
        i("null-overrides-stdin", Some("{\"k\": \"s\"}"), &["{\"k\": null, \"j\": null}"]),
        i("false-zero-empty-override", None, &["{\"k\": 5, \"j\": 5}", "{\"k\": false, \"j\": 0}", "{\"k\": \"\"}"]),
        // explicit value_n keys meeting the automatic numbering of non-object inputs
        i("stdin-value-key-then-scalar", Some("{\"value_1\": \"piped\", \"k\": 1}"), &["7"]),
        i("stdin-value2-key-then-two-scalars", Some("{\"value_2\": \"piped\", \"j\": 0}"), &["7", "8"]),
        i("stdin-value9-key-then-array", Some("{\"value_9\": 1}"), &["[1]"]),
        i("flag-value-key-then-scalar", None, &["{\"value_1\": \"a\", \"value_2\": \"b\"}", "5"]),
        i("scalar-then-flag-value-key", None, &["5", "{\"value_1\": \"late\"}", "6"]),
    ]
}

#[derive(Clone, Copy, PartialEq, Debug)]
enum Mode {
    File,
    Inline,
    EvalStdin,
    OutFile,
    /// `-o` onto a file that already holds a (longer) outputs object from an earlier run
    OutFileExisting,
}

const PREVIOUS_OUTPUT: &str = "{\"previous\":\"an earlier, much longer outputs object: 0123456789 0123456789 0123456789 0123456789 0123456789 0123456789 0123456789 0123456789 0123456789 0123456789 0123456789 0123456789 0123456789 0123456789 0123456789 0123456789 0123456789 0123456789 0123456789 0123456789 0123456789 0123456789 0123456789 0123456789 0123456789 0123456789 0123456789\",\"b\":[1,2,3],\"c\":{\"k\":null}}\n";

/// Model: merged inputs or an input error.
fn model_inputs(set: &InputSet, mode: Mode) -> Result<IndexMap<String, J>, ()> {
    let mut merged: IndexMap<String, J> = IndexMap::new();
    let mut counter = 0;
    let mut sources: Vec<&str> = vec![];
    if mode != Mode::EvalStdin {
        if let Some(s) = set.stdin {
            if !s.trim().is_empty() {
                sources.push(s);
            }
        }
    }
    sources.extend(set.flags.iter());
    for src in sources {
        let j: J = serde_json::from_str(src).map_err(|_| ())?;
        match j {
            J::Object(o) => {
                // serde_json::Map without preserve_order iterates in key order; order of insertion
                // into the merged record does not matter for lookups
                for (k, v) in o {
                    merged.insert(k, v);
                }
            }
            other => {
                counter += 1;
                merged.insert(format!("value_{}", counter), other);
            }
        }
    }
    Ok(merged)
}

struct ModelResult {
    ok: bool,
    outputs: IndexMap<String, J>,
}

fn model_run(script: &[usize], inputs: &IndexMap<String, J>) -> ModelResult {
    let mut env: IndexMap<String, J> = IndexMap::new();
    let mut outputs: IndexMap<String, J> = IndexMap::new();
    let fail = |outputs: IndexMap<String, J>| ModelResult { ok: false, outputs };
    if script.iter().any(|s| ALPHABET[*s] == "a = = 1") {
        return fail(IndexMap::new());
    }
    let inp = |k: &str| inputs.get(k).cloned().unwrap_or(J::Null);
    let num = |n: i64| json!(n as f64);
    for s in script {
        match ALPHABET[*s] {
            "a = 1" => {
                if env.contains_key("a") {
                    return fail(outputs);
                }
                env.insert("a".into(), num(1));
            }
            "output b = 2" => {
                if env.contains_key("b") {
                    return fail(outputs);
                }
                env.insert("b".into(), num(2));
                outputs.insert("b".into(), num(2));
            }
            "output a" | "output b" => {
                let n = &ALPHABET[*s][7..];
                match env.get(n) {
                    Some(v) => {
                        outputs.insert(n.to_string(), v.clone());
                    }
                    None => return fail(outputs),
                }
            }
            "c = nope" | "output f = x => x + zz" => return fail(outputs),
            "// just a comment" => {}
            "output d = inputs.k" => {
                if env.contains_key("d") {
                    return fail(outputs);
                }
                env.insert("d".into(), inp("k"));
                outputs.insert("d".into(), inp("k"));
            }
            "output g = [#k, inputs.k, #missing, inputs.missing]" => {
                if env.contains_key("g") {
                    return fail(outputs);
                }
                let v = json!([inp("k"), inp("k"), J::Null, J::Null]);
                env.insert("g".into(), v.clone());
                outputs.insert("g".into(), v);
            }
            "output t = (a = 10) + 5" => {
                if env.contains_key("t") || env.contains_key("a") {
                    return fail(outputs);
                }
                env.insert("a".into(), num(10));
                env.insert("t".into(), num(15));
                outputs.insert("t".into(), num(15));
            }
            "output whole = inputs" => {
                if env.contains_key("whole") {
                    return fail(outputs);
                }
                let v = J::Object(inputs.iter().map(|(k, v)| (k.clone(), v.clone())).collect());
                env.insert("whole".into(), v.clone());
                outputs.insert("whole".into(), v);
            }
            "output v = [#value_1, inputs.value_2, #j]" => {
                if env.contains_key("v") {
                    return fail(outputs);
                }
                let v = json!([inp("value_1"), inp("value_2"), inp("j")]);
                env.insert("v".into(), v.clone());
                outputs.insert("v".into(), v);
            }
            _ => unreachable!(),
        }
    }
    ModelResult { ok: true, outputs }
}

/// JSON equality with numbers as doubles.
fn json_eq(a: &J, b: &J) -> bool {
    match (a, b) {
        (J::Number(x), J::Number(y)) => x.as_f64() == y.as_f64(),
        (J::Array(x), J::Array(y)) => x.len() == y.len() && x.iter().zip(y).all(|(p, q)| json_eq(p, q)),
        (J::Object(x), J::Object(y)) => x.len() == y.len() && x.iter().all(|(k, v)| y.get(k).map(|w| json_eq(v, w)).unwrap_or(false)),
        _ => a == b,
    }
}

/// Lines of `text` that parse as a JSON object.
fn json_object_lines(text: &str) -> Vec<J> {
    text.lines().filter_map(|l| serde_json::from_str::<J>(l.trim()).ok()).filter(|j| j.is_object()).collect()
}

fn check(ctx: &Ctx, script: &[usize], set: &InputSet, mode: Mode) {
    let source: String = script.iter().map(|s| ALPHABET[*s]).collect::<Vec<_>>().join("\n");
    let desc = format!("[{:?} / inputs {}] {}", mode, set.name, source.replace('\n', " ; "));
    let case = json!({"script": script, "inputs": set.name, "mode": format!("{:?}", mode)});
    // ---- model
    let inputs = model_inputs(set, mode);
    let model = match &inputs {
        Ok(i) => model_run(script, i),
        Err(()) => ModelResult { ok: false, outputs: IndexMap::new() },
    };
    // ---- real run
    let mut args: Vec<String> = vec![];
    let mut stdin: Option<Vec<u8>> = set.stdin.map(|s| s.as_bytes().to_vec());
    let mut file = None;
    let mut out_file = None;
    match mode {
        Mode::File | Mode::OutFile | Mode::OutFileExisting => {
            let f = scratch_file("script");
            let _ = std::fs::write(&f, &source);
            args.push(f.clone());
            file = Some(f);
        }
        Mode::Inline => args.push(if source.is_empty() { "// empty".to_string() } else { source.clone() }),
        Mode::EvalStdin => {
            args.push("-e".into());
            stdin = Some(source.as_bytes().to_vec());
        }
    }
    let is_out = mode == Mode::OutFile || mode == Mode::OutFileExisting;
    if is_out {
        let o = scratch_file("out");
        let _ = std::fs::remove_file(&o);
        if mode == Mode::OutFileExisting {
            let _ = std::fs::write(&o, PREVIOUS_OUTPUT);
        }
        args.push("-o".into());
        args.push(o.clone());
        out_file = Some(o);
    }
    for f in &set.flags {
        args.push("-i".into());
        args.push(f.to_string());
    }
    // a closed/empty stdin: /dev/null is "piped" (not a terminal) and empty
    let r = run_blots(&args, stdin.as_deref(), None);
    ctx.count(1);
    ctx.nontrivial(&desc);
    let written = out_file.as_ref().and_then(|o| std::fs::read_to_string(o).ok());
    if let Some(f) = &file {
        let _ = std::fs::remove_file(f);
    }
    if let Some(o) = &out_file {
        let _ = std::fs::remove_file(o);
    }
    let viol = |kind: &str, exp: String, obs: String| {
        ctx.violation(Violation { kind: kind.to_string(), class: format!("{:?}|{}", mode, set.name), input: desc.clone(), expected: exp, observed: obs, case: case.clone() });
    };
    if r.crashed() {
        viol("crash", "exit 0 or 1".into(), r.describe());
        return;
    }
    let stdout_objects = json_object_lines(&r.stdout);
    if model.ok {
        ctx.outcome("model-success");
        if r.code != Some(0) {
            viol("exit-status", "exit 0 (every statement succeeds)".into(), r.describe());
            return;
        }
        let (text, objects) = if is_out {
            if !stdout_objects.is_empty() {
                viol("outputs-on-stdout-despite--o", "no JSON object on stdout".into(), r.describe());
            }
            match &written {
                Some(t) => (t.clone(), json_object_lines(t)),
                None => {
                    viol("output-file-missing", "the --output file holds the outputs object".into(), r.describe());
                    return;
                }
            }
        } else {
            (r.stdout.clone(), stdout_objects.clone())
        };
        if objects.len() != 1 {
            viol("outputs-object-count", "exactly one JSON object".into(), format!("{} objects in {:?}", objects.len(), truncate(&text, 200)));
            return;
        }
        let want = J::Object(model.outputs.iter().map(|(k, v)| (k.clone(), v.clone())).collect());
        if !json_eq(&objects[0], &want) {
            viol("outputs-value", want.to_string(), truncate(&text, 300));
            return;
        }
        // declaration order of the keys in the raw text
        let mut last = 0usize;
        for k in model.outputs.keys() {
            match text.find(&format!("\"{}\":", k)) {
                Some(p) if p >= last => last = p,
                _ => {
                    viol("outputs-order", format!("keys in declaration order {:?}", model.outputs.keys().collect::<Vec<_>>()), truncate(&text, 300));
                    return;
                }
            }
        }
    } else {
        ctx.outcome("model-failure");
        if r.code == Some(0) || r.code.is_none() {
            viol("exit-status", "non-zero exit (a statement or an input fails)".into(), r.describe());
            return;
        }
        if !stdout_objects.is_empty() {
            viol("outputs-object-despite-failure", "no outputs object on stdout".into(), truncate(&r.stdout, 300));
        }
        if r.stdout.trim().is_empty() && r.stderr.trim().is_empty() {
            viol("silent-failure", "the error is reported".into(), r.describe());
        }
        match (&written, mode) {
            (Some(w), Mode::OutFileExisting) => {
                // the earlier file may stay (or be emptied), but no new outputs object may appear in it
                if w != PREVIOUS_OUTPUT && !json_object_lines(w).is_empty() {
                    viol("output-file-written-despite-failure", "the --output file keeps its earlier content or holds no object".into(), truncate(w, 200));
                }
            }
            (Some(w), _) => viol("output-file-written-despite-failure", "no --output file".into(), format!("{:?}", w)),
            _ => {}
        }
    }
}

pub fn run(ctx: &Ctx, replay: Option<&J>) -> i32 {
    let sets = input_sets();
    if let Some(r) = replay {
        let script: Vec<usize> = r["case"]["script"].as_array().map(|a| a.iter().map(|x| x.as_u64().unwrap_or(0) as usize).collect()).unwrap_or_default();
        let set = sets.iter().find(|s| Some(s.name) == r["case"]["inputs"].as_str()).cloned().unwrap_or(sets[0].clone());
        let mode = match r["case"]["mode"].as_str() {
            Some("Inline") => Mode::Inline,
            Some("EvalStdin") => Mode::EvalStdin,
            Some("OutFile") => Mode::OutFile,
            Some("OutFileExisting") => Mode::OutFileExisting,
            _ => Mode::File,
        };
        check(ctx, &script, &set, mode);
        return if ctx.violation_count() > 0 {
            println!("VIOLATION property=C19 replay=<replayed>");
            1
        } else {
            0
        };
    }
    let max_len = ctx.tier.pick(3, 4);
    let idx: Vec<usize> = (0..ALPHABET.len()).collect();
    let scripts: Vec<Vec<usize>> = words(&idx, max_len);
    let modes = [Mode::File, Mode::Inline, Mode::EvalStdin, Mode::OutFile, Mode::OutFileExisting];
    let mut jobs: Vec<(usize, usize, Mode)> = vec![];
    for (si, s) in scripts.iter().enumerate() {
        for (ii, set) in sets.iter().enumerate() {
            for m in modes {
                // -e reads the source from stdin: input sets that use stdin do not apply
                if m == Mode::EvalStdin && set.stdin.is_some() {
                    continue;
                }
                // every script in file mode with every input set; other modes for scripts of length <= 2
                // (quick) / <= 3 (thorough) and for a rotating subset of the longer ones
                // scripts up to length 2 (quick) / 3 (thorough): every input set in every mode;
                // the longest scripts: file mode with a rotating third of the input sets, plus a
                // rotating seventh in the other modes
                let short = s.len() <= ctx.tier.pick(2, 3);
                if short || (m == Mode::File && (si + ii) % 3 == 0) || (si + ii) % 7 == 0 {
                    jobs.push((si, ii, m));
                }
            }
        }
    }
    ctx.set("scripts", json!(scripts.len()));
    ctx.set("input_sets", json!(sets.iter().map(|s| s.name).collect::<Vec<_>>()));
    ctx.set("alphabet", json!(ALPHABET));
    par_for(jobs.len(), |i| {
        let (si, ii, m) = jobs[i];
        check(ctx, &scripts[si], &sets[ii], m);
    });
    // ---- hand-written scripts whose statements all succeed (function outputs of several provenances,
    // many outputs): exit 0, exactly one object with exactly these keys in this order, in every mode
    {
        let many: String = (0..40).map(|i| format!("output o{} = {}", i, i)).collect::<Vec<_>>().join("\n");
        let many_keys: Vec<String> = (0..40).map(|i| format!("o{}", i)).collect();
        let scripts: Vec<(String, Vec<String>)> = vec![
            ("output f = do {\n  fact = n => if n <= 1 then 1 else n * fact(n - 1)\n  return fact\n}".to_string(), vec!["f".into()]),
            ("mk = () => do {\n  go = n => if n <= 0 then 0 else go(n - 1)\n  return go\n}\ninst = mk()\nalias = inst\nused = alias(3)\noutput alias\noutput used".to_string(), vec!["alias".into(), "used".into()]),
            ("output r = {fn: do {\n  loop = n => if n <= 0 then [] else [n, ...loop(n - 1)]\n  return loop\n}, k: 1}".to_string(), vec!["r".into()]),
            ("k = 2\ng = x => x * k\noutput h = y => g(y) + k\noutput v = h(3)".to_string(), vec!["h".into(), "v".into()]),
            ("fact = n => if n <= 1 then 1 else n * fact(n - 1)\noutput fact\noutput x = fact(5)".to_string(), vec!["fact".into(), "x".into()]),
            (many, many_keys),
            // `#name` is `inputs.name` whatever `inputs` means at that point
            // the two spellings in closures that escape the scope in which `inputs` was rebound and are called
            // where `inputs` means something else: every output is a list of pairs [#k, inputs.k] of equal members
            ("mk = inputs => {h: () => #k, d: () => inputs.k, both: () => [#k, inputs.k]}\nfs = mk({k: \"shadow\"})\noutput e = [[fs.h(), fs.d()], fs.both()]\ng = do {\n  inputs = {k: \"local\"}\n  return [() => #k, () => inputs.k]\n}\noutput e2 = [[g[0](), g[1]()]]\noutput e3 = [(inputs => [fs.h(), fs.d()])({k: \"third\"}), (inputs => fs.both())({k: \"fourth\"})]".to_string(), vec!["e".into(), "e2".into(), "e3".into()]),
            ("output r = (inputs => [#k, inputs.k, #missing])({k: 2})\noutput d = do {\n  inputs = {k: 3, j: 4}\n  return [#k, inputs.k, #j, #missing]\n}\noutput p = [{k: 5}] via (inputs => [#k, inputs.k])".to_string(), vec!["r".into(), "d".into(), "p".into()]),
        ];
        // expected values of the last script (independent of the real inputs, which are empty here)
        let shadow_expected = json!({"r": [2.0, 2.0, null], "d": [3.0, 3.0, 4.0, null], "p": [[5.0, 5.0]]});
        let mut jobs: Vec<(usize, &'static str)> = vec![];
        for i in 0..scripts.len() {
            for m in ["file", "inline", "stdin-e", "out-file"] {
                jobs.push((i, m));
            }
        }
        let results: Vec<(crate::proc::CliResult, Option<String>)> = par_map(&jobs, |(i, m)| {
            let src = &scripts[*i].0;
            match *m {
                "file" => {
                    let f = scratch_file("hand");
                    let _ = std::fs::write(&f, src);
                    let r = run_blots(&[f.clone()], None, None);
                    let _ = std::fs::remove_file(&f);
                    (r, None)
                }
                "inline" => (run_blots(&[src.clone()], None, None), None),
                "stdin-e" => (run_blots(&["-e".into()], Some(src.as_bytes()), None), None),
                _ => {
                    let o = scratch_file("hand-out");
                    let _ = std::fs::remove_file(&o);
                    let r = run_blots(&[src.clone(), "-o".into(), o.clone()], None, None);
                    let w = std::fs::read_to_string(&o).ok();
                    let _ = std::fs::remove_file(&o);
                    (r, Some(w.unwrap_or_default()))
                }
            }
        });
        for ((i, m), (r, file)) in jobs.iter().zip(results.iter()) {
            ctx.count(1);
            ctx.nontrivial(&format!("hand-script:{}:{}", i, m));
            ctx.outcome("hand-script");
            let text = file.clone().unwrap_or_else(|| r.stdout.clone());
            let objs = json_object_lines(&text);
            let keys: Vec<String> = objs.first().and_then(|o| o.as_object()).map(|o| o.keys().cloned().collect()).unwrap_or_default();
            let mut want = scripts[*i].1.clone();
            let mut got = keys.clone();
            // (the harness's JSON maps are sorted; declaration order is checked on the raw text below)
            want.sort();
            got.sort();
            let mut ordered = true;
            let mut last = 0usize;
            for k in &scripts[*i].1 {
                match text.find(&format!("\"{}\":", k)) {
                    Some(p) if p >= last => last = p,
                    _ => ordered = false,
                }
            }
            let values_ok = if *i == scripts.len() - 1 {
                objs.first().map(|o| json_eq(o, &shadow_expected)).unwrap_or(false)
            } else if *i == scripts.len() - 2 {
                objs.first().and_then(|o| o.as_object()).map(|o| o.values().all(|v| v.as_array().map(|ps| !ps.is_empty() && ps.iter().all(|p| p.as_array().map(|p| p.len() == 2 && p[0] == p[1]).unwrap_or(false))).unwrap_or(false))).unwrap_or(false)
            } else {
                true
            };
            if r.code != Some(0) || objs.len() != 1 || want != got || !ordered || !values_ok {
                ctx.violation(Violation {
                    kind: "hand-script".into(),
                    class: m.to_string(),
                    input: format!("[{}] {}", m, truncate(&scripts[*i].0.replace('\n', " ; "), 200)),
                    expected: format!("exit 0 and one object with keys {:?} in this order", scripts[*i].1),
                    observed: truncate(&r.describe(), 300),
                    case: json!({"hand_script": i, "mode": m}),
                });
            }
        }
    }
    // ---- large non-ASCII sources: the script text itself arrives through reads of bounded size
    // (file, inline argument, -e on stdin in one write and in small chunks)
    {
        let mut jobs: Vec<(String, String, &'static str)> = vec![];
        for (ch, name) in [('\u{e9}', "2-byte"), ('\u{20ac}', "3-byte"), ('\u{1f600}', "4-byte")] {
            for pad in 0..ch.len_utf8() {
                let word: String = std::iter::repeat(ch).take(40).collect();
                let mut src = format!("// {}\n", "p".repeat(pad));
                let n = 70_000 / (word.len() + 16);
                for i in 0..n {
                    src.push_str(&format!("v{} = \"{}\"\n", i, word));
                }
                src.push_str(&format!("output last = v{}\noutput count = {}\n", n - 1, n));
                let want = json!({"last": word, "count": n as f64}).to_string();
                for mode in ["file", "stdin-e", "stdin-e-chunked"] {
                    jobs.push((format!("large-source:{}:pad{}:{}", name, pad, mode), src.clone(), mode));
                    let _ = &want;
                }
            }
        }
        let results: Vec<crate::proc::CliResult> = par_map(&jobs, |(_, src, mode)| match *mode {
            "file" => {
                let f = scratch_file("large");
                let _ = std::fs::write(&f, src);
                let r = run_blots(&[f.clone()], None, None);
                let _ = std::fs::remove_file(&f);
                r
            }
            "stdin-e" => run_blots(&["-e".into()], Some(src.as_bytes()), None),
            _ => crate::proc::run_cmd_chunked(&crate::proc::blots_bin(), &["-e".into()], Some(src.as_bytes()), None, std::time::Duration::from_secs(120), Some((4093, std::time::Duration::from_micros(300)))),
        });
        for ((name, src, _), r) in jobs.iter().zip(results.iter()) {
            ctx.count(1);
            ctx.nontrivial(name);
            ctx.outcome("large-source");
            // expected: the last string and the statement count
            let n = src.lines().filter(|l| l.starts_with('v')).count();
            let word = src.lines().find(|l| l.starts_with("v0 = ")).map(|l| l["v0 = \"".len()..l.len() - 1].to_string()).unwrap_or_default();
            let want = json!({"last": word, "count": n as f64});
            let got: Option<J> = serde_json::from_str(r.stdout.trim()).ok();
            if r.code != Some(0) || got.as_ref() != Some(&want) {
                ctx.violation(Violation {
                    kind: "large-source".into(),
                    class: name.rsplit(':').next().unwrap_or("").to_string(),
                    input: format!("{} ({} bytes of source)", name, src.len()),
                    expected: truncate(&want.to_string(), 120),
                    observed: truncate(&r.describe(), 300),
                    case: json!({"large_source": name}),
                });
            }
        }
    }
    crate::proc::cleanup_scratch();
    ctx.sample(json!({"script": ["a = 1", "output a", "output b = 2"], "inputs": "override", "mode": "File", "model": {"exit": 0, "outputs": {"a": 1, "b": 2}}}));
    ctx.sample(json!({"script": ["output b = 2", "c = nope"], "inputs": "none", "mode": "OutFile", "model": {"exit": "non-zero", "file": "not written"}}));
    ctx.sample(json!({"script": ["output v = [#value_1, inputs.value_2, #j]"], "inputs": "stdin-scalar-then-flag-scalar", "model": {"outputs": {"v": [7, 8, null]}}}));
    ctx.require_outcome("model-success", 500);
    ctx.require_outcome("model-failure", 500);
    let n = jobs.len() as u64;
    ctx.set("trusted_base", json!(["reference model of the CLI contract in mc/src/c19.rs (model_inputs, model_run)"]));
    finish(
        ctx,
        "model_checking",
        "model traces = every script of length <= 3/4 over a 13-statement alphabet (bind, output-with-binding, output of bound/unbound name, re-output, evaluation failure, non-portable function output, parse error, comment, #name / inputs.name reads, value_n reads) x 22 input sets (0..3 --input flags and/or stdin; objects with overlapping keys, arrays, scalars, explicit value_1 key, empty stdin, invalid JSON) x 5 invocation modes (file, inline, -e stdin, -o onto a missing file, -o onto a file holding a longer earlier outputs object); every trace is executed by the real binary and compared with the model; plus 70 KB non-ASCII sources (2-, 3-, 4-byte characters at every phase) as file, on -e stdin in one write and in 4093-byte chunks (exit status biconditional, exactly one outputs object with the model's keys in declaration order and values, no object / no file on failure, diagnostics present); distinct = distinct (script, inputs, mode)",
        true,
        Some((scripts.len() as u64 * sets.len() as u64, n, n)),
    )
}
