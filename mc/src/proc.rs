//! process-level helpers (filled in later)
pub fn worker_main(_kind: &str) -> ! {
    std::process::exit(2)
}
