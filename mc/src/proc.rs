//! Process-level helpers: driving the real `blots` binary and crash-isolated workers.
#![allow(dead_code)]

use std::io::Write;
use std::process::{Command, Stdio};
use std::sync::atomic::{AtomicUsize, Ordering};
use std::time::{Duration, Instant};

static COUNTER: AtomicUsize = AtomicUsize::new(0);

pub fn blots_bin() -> String {
    std::env::var("BLOTS_BIN").unwrap_or_else(|_| "/verif/.build/repo/release/blots".to_string())
}

pub fn scratch_dir() -> String {
    let d = format!("/verif/.build/scratch/{}", std::process::id());
    let _ = std::fs::create_dir_all(&d);
    d
}

pub fn scratch_file(tag: &str) -> String {
    let n = COUNTER.fetch_add(1, Ordering::Relaxed);
    format!("{}/{}-{}", scratch_dir(), tag, n)
}

pub fn cleanup_scratch() {
    let _ = std::fs::remove_dir_all(scratch_dir());
}

#[derive(Debug, Clone)]
pub struct CliResult {
    /// exit code, or None when killed by a signal
    pub code: Option<i32>,
    pub signal: Option<i32>,
    pub stdout: String,
    pub stderr: String,
    pub timed_out: bool,
}

impl CliResult {
    pub fn crashed(&self) -> bool {
        self.signal.is_some() || matches!(self.code, Some(101) | Some(134) | Some(139)) || self.timed_out
    }
    pub fn describe(&self) -> String {
        format!(
            "exit={:?} signal={:?}{} stdout={:?} stderr={:?}",
            self.code,
            self.signal,
            if self.timed_out { " TIMEOUT" } else { "" },
            crate::common::truncate(&self.stdout, 200),
            crate::common::truncate(&self.stderr, 300)
        )
    }
}

/// Run a command with the given stdin bytes, an optional stack limit (bytes) and a wall-clock cap.
pub fn run_cmd(program: &str, args: &[String], stdin: Option<&[u8]>, stack_limit: Option<u64>, timeout: Duration) -> CliResult {
    run_cmd_chunked(program, args, stdin, stack_limit, timeout, None)
}

/// As `run_cmd`; with `chunk = Some((n, pause))` the stdin bytes are written n at a time with a
/// pause after each write, so that the reader's `read` calls end at (almost surely) every multiple
/// of n - the environment answer "short read" made explicit.
pub fn run_cmd_chunked(program: &str, args: &[String], stdin: Option<&[u8]>, stack_limit: Option<u64>, timeout: Duration, chunk: Option<(usize, Duration)>) -> CliResult {
    use std::os::unix::process::{CommandExt, ExitStatusExt};
    let mut cmd = Command::new(program);
    cmd.args(args).env("RUST_BACKTRACE", "0").env("NO_COLOR", "1").stdout(Stdio::piped()).stderr(Stdio::piped());
    cmd.stdin(if stdin.is_some() { Stdio::piped() } else { Stdio::null() });
    if let Some(limit) = stack_limit {
        unsafe {
            cmd.pre_exec(move || {
                let lim = libc::rlimit { rlim_cur: limit, rlim_max: limit };
                libc::setrlimit(libc::RLIMIT_STACK, &lim);
                // no core files
                let zero = libc::rlimit { rlim_cur: 0, rlim_max: 0 };
                libc::setrlimit(libc::RLIMIT_CORE, &zero);
                Ok(())
            });
        }
    }
    // (without a stack limit no pre_exec hook is installed, so std can use the fast posix_spawn path)
    let mut child = match cmd.spawn() {
        Ok(c) => c,
        Err(e) => {
            return CliResult { code: None, signal: None, stdout: String::new(), stderr: format!("spawn failed: {}", e), timed_out: false };
        }
    };
    if let Some(bytes) = stdin {
        if let Some(mut si) = child.stdin.take() {
            match chunk {
                None => {
                    let _ = si.write_all(bytes);
                }
                Some((n, pause)) => {
                    for part in bytes.chunks(n.max(1)) {
                        if si.write_all(part).is_err() {
                            break;
                        }
                        let _ = si.flush();
                        std::thread::sleep(pause);
                    }
                }
            }
        }
    }
    // read output on helper threads so a full pipe cannot block the child
    let mut so = child.stdout.take().unwrap();
    let mut se = child.stderr.take().unwrap();
    let t_out = std::thread::spawn(move || {
        let mut v = Vec::new();
        let _ = std::io::Read::read_to_end(&mut so, &mut v);
        v
    });
    let t_err = std::thread::spawn(move || {
        let mut v = Vec::new();
        let _ = std::io::Read::read_to_end(&mut se, &mut v);
        v
    });
    let start = Instant::now();
    let mut timed_out = false;
    let mut polls = 0u32;
    let status = loop {
        match child.try_wait() {
            Ok(Some(s)) => break Some(s),
            Ok(None) => {
                if start.elapsed() > timeout {
                    let _ = child.kill();
                    timed_out = true;
                    break child.wait().ok();
                }
                polls += 1;
                std::thread::sleep(if polls < 100 { Duration::from_micros(200) } else { Duration::from_millis(2) });
            }
            Err(_) => break None,
        }
    };
    let stdout = String::from_utf8_lossy(&t_out.join().unwrap_or_default()).to_string();
    let stderr = String::from_utf8_lossy(&t_err.join().unwrap_or_default()).to_string();
    CliResult {
        code: status.and_then(|s| s.code()),
        signal: status.and_then(|s| s.signal()),
        stdout,
        stderr,
        timed_out,
    }
}

/// Run the real blots binary.
pub fn run_blots(args: &[String], stdin: Option<&[u8]>, stack_limit: Option<u64>) -> CliResult {
    run_cmd(&blots_bin(), args, stdin, stack_limit, Duration::from_secs(20))
}

/// `blots --format in out` on `src`; returns the formatted text.
pub fn run_cli_format(src: &str) -> Result<String, String> {
    let inp = scratch_file("fmt-in");
    let out = scratch_file("fmt-out");
    std::fs::write(&inp, src).map_err(|e| e.to_string())?;
    let r = run_blots(&["--format".into(), inp.clone(), out.clone()], None, None);
    let res = if r.code == Some(0) {
        std::fs::read_to_string(&out).map_err(|e| format!("cannot read output: {}", e))
    } else {
        Err(r.describe())
    };
    let _ = std::fs::remove_file(&inp);
    let _ = std::fs::remove_file(&out);
    res
}

// ---------------------------------------------------------------------------------------------
// crash-isolated worker: reads one JSON case per line on stdin, answers one JSON line on stdout

pub fn worker_main(kind: &str) -> ! {
    crate::common::install_quiet_panic_hook();
    // the library has no stack protection of its own: like the CLI's interpreter thread, the
    // whole worker loop runs on one large stack
    let kind = kind.to_string();
    crate::common::on_big_stack(move || worker_loop(&kind));
    std::process::exit(0)
}

fn worker_loop(kind: &str) {
    let stdin = std::io::stdin();
    let mut line = String::new();
    let out = std::io::stdout();
    loop {
        line.clear();
        match stdin.read_line(&mut line) {
            Ok(0) | Err(_) => break,
            Ok(_) => {}
        }
        let case: serde_json::Value = match serde_json::from_str(line.trim()) {
            Ok(c) => c,
            Err(_) => continue,
        };
        let answer = match kind {
            "c01" => crate::c01::worker_case(&case),
            _ => serde_json::json!({"error": "unknown worker kind"}),
        };
        let mut o = out.lock();
        let _ = writeln!(o, "{}", answer);
        let _ = o.flush();
    }
}

/// Supervisor side: a worker process that is restarted when it dies; the case in flight when it
/// died is attributed to the death.
pub struct Worker {
    kind: String,
    child: Option<std::process::Child>,
    stdin: Option<std::process::ChildStdin>,
    rx: Option<std::sync::mpsc::Receiver<String>>,
    stack_limit: Option<u64>,
}

pub enum WorkerAnswer {
    Ok(serde_json::Value),
    /// worker died (or was killed after the time cap) while processing the case
    Died(String),
}

impl Worker {
    pub fn new(kind: &str, stack_limit: Option<u64>) -> Self {
        Worker { kind: kind.to_string(), child: None, stdin: None, rx: None, stack_limit }
    }

    fn ensure(&mut self) {
        if self.child.is_some() {
            return;
        }
        use std::os::unix::process::CommandExt;
        let exe = std::env::current_exe().expect("current exe");
        let mut cmd = Command::new(exe);
        cmd.arg("worker").arg(&self.kind).env("RUST_BACKTRACE", "0").stdin(Stdio::piped()).stdout(Stdio::piped()).stderr(Stdio::null());
        let limit = self.stack_limit;
        unsafe {
            cmd.pre_exec(move || {
                if let Some(l) = limit {
                    let lim = libc::rlimit { rlim_cur: l, rlim_max: l };
                    libc::setrlimit(libc::RLIMIT_STACK, &lim);
                }
                let zero = libc::rlimit { rlim_cur: 0, rlim_max: 0 };
                libc::setrlimit(libc::RLIMIT_CORE, &zero);
                let mem = libc::rlimit { rlim_cur: 12 << 30, rlim_max: 12 << 30 };
                libc::setrlimit(libc::RLIMIT_AS, &mem);
                Ok(())
            });
        }
        let mut child = cmd.spawn().expect("spawn worker");
        self.stdin = child.stdin.take();
        let stdout = child.stdout.take().expect("worker stdout");
        let (tx, rx) = std::sync::mpsc::channel();
        std::thread::spawn(move || {
            use std::io::BufRead;
            for line in std::io::BufReader::new(stdout).lines() {
                match line {
                    Ok(l) => {
                        if tx.send(l).is_err() {
                            break;
                        }
                    }
                    Err(_) => break,
                }
            }
        });
        self.rx = Some(rx);
        self.child = Some(child);
    }

    fn reap(&mut self, why: &str) -> WorkerAnswer {
        use std::os::unix::process::ExitStatusExt;
        let status = self.child.as_mut().and_then(|c| {
            let _ = c.kill();
            c.wait().ok()
        });
        let desc = match status {
            Some(s) => format!("{}: worker exit code {:?} signal {:?}", why, s.code(), s.signal()),
            None => format!("{}: worker vanished", why),
        };
        self.child = None;
        self.stdin = None;
        self.rx = None;
        WorkerAnswer::Died(desc)
    }

    pub fn ask(&mut self, case: &serde_json::Value) -> WorkerAnswer {
        self.ask_timeout(case, Duration::from_secs(60))
    }

    pub fn ask_timeout(&mut self, case: &serde_json::Value, cap: Duration) -> WorkerAnswer {
        self.ensure();
        let line = format!("{}\n", case);
        let wrote = self.stdin.as_mut().map(|s| s.write_all(line.as_bytes()).and_then(|_| s.flush()).is_ok()).unwrap_or(false);
        if !wrote {
            return self.reap("worker died before the case was sent");
        }
        let got = self.rx.as_ref().map(|rx| rx.recv_timeout(cap));
        match got {
            Some(Ok(answer)) => match serde_json::from_str(answer.trim()) {
                Ok(v) => WorkerAnswer::Ok(v),
                Err(e) => WorkerAnswer::Died(format!("unparsable worker answer {:?}: {}", answer, e)),
            },
            Some(Err(std::sync::mpsc::RecvTimeoutError::Timeout)) => self.reap(&format!("no answer within {:?} (hang)", cap)),
            _ => self.reap("worker process died"),
        }
    }
}

impl Drop for Worker {
    fn drop(&mut self) {
        self.stdin = None;
        if let Some(mut c) = self.child.take() {
            let _ = c.kill();
            let _ = c.wait();
        }
    }
}

/// Run a command with a pseudo-terminal as stdin / stdout / stderr (the environment answer "stdin is
/// a terminal"), typing `lines` one by one, then a marker line, then end-of-file. Returns the
/// terminal transcript in `stdout`; `stderr` tells whether the marker's value was seen.
pub fn run_pty(program: &str, args: &[String], lines: &[String], marker_line: &str, marker_seen: &str, stack_limit: Option<u64>, timeout: Duration) -> CliResult {
    use std::os::unix::io::FromRawFd;
    use std::os::unix::process::{CommandExt, ExitStatusExt};
    let mut master: libc::c_int = -1;
    let mut slave: libc::c_int = -1;
    let ws = libc::winsize { ws_row: 50, ws_col: 200, ws_xpixel: 0, ws_ypixel: 0 };
    if unsafe { libc::openpty(&mut master, &mut slave, std::ptr::null_mut(), std::ptr::null(), &ws) } != 0 {
        return CliResult { code: None, signal: None, stdout: String::new(), stderr: "openpty failed".into(), timed_out: false };
    }
    let mut cmd = Command::new(program);
    cmd.args(args).env("RUST_BACKTRACE", "0").env("NO_COLOR", "1").env("TERM", "dumb");
    unsafe {
        cmd.stdin(Stdio::from_raw_fd(libc::dup(slave))).stdout(Stdio::from_raw_fd(libc::dup(slave))).stderr(Stdio::from_raw_fd(libc::dup(slave)));
        cmd.pre_exec(move || {
            libc::setsid();
            libc::ioctl(0, libc::TIOCSCTTY, 0);
            libc::close(master);
            if let Some(limit) = stack_limit {
                let lim = libc::rlimit { rlim_cur: limit, rlim_max: limit };
                libc::setrlimit(libc::RLIMIT_STACK, &lim);
            }
            let zero = libc::rlimit { rlim_cur: 0, rlim_max: 0 };
            libc::setrlimit(libc::RLIMIT_CORE, &zero);
            Ok(())
        });
    }
    let spawned = cmd.spawn();
    drop(cmd);
    unsafe { libc::close(slave) };
    let mut child = match spawned {
        Ok(c) => c,
        Err(e) => {
            unsafe { libc::close(master) };
            return CliResult { code: None, signal: None, stdout: String::new(), stderr: format!("spawn failed: {}", e), timed_out: false };
        }
    };
    unsafe {
        let fl = libc::fcntl(master, libc::F_GETFL);
        libc::fcntl(master, libc::F_SETFL, fl | libc::O_NONBLOCK);
    }
    let mut pending: Vec<u8> = Vec::new();
    for l in lines {
        pending.extend_from_slice(l.as_bytes());
        pending.push(b'\n');
    }
    pending.extend_from_slice(marker_line.as_bytes());
    pending.push(b'\n');
    let mut out: Vec<u8> = Vec::new();
    let start = Instant::now();
    let mut timed_out = false;
    let mut sent_eof = false;
    let mut seen = false;
    let mut hung_up = false;
    let mut buf = [0u8; 8192];
    let status = loop {
        if let Ok(Some(s)) = child.try_wait() {
            // drain what is left
            loop {
                let n = unsafe { libc::read(master, buf.as_mut_ptr() as *mut libc::c_void, buf.len()) };
                if n <= 0 {
                    break;
                }
                out.extend_from_slice(&buf[..n as usize]);
            }
            break Some(s);
        }
        if start.elapsed() > timeout {
            let _ = child.kill();
            timed_out = true;
            break child.wait().ok();
        }
        let mut pfd = libc::pollfd { fd: master, events: libc::POLLIN | if pending.is_empty() || hung_up { 0 } else { libc::POLLOUT }, revents: 0 };
        let _ = unsafe { libc::poll(&mut pfd, 1, 20) };
        if pfd.revents & libc::POLLIN != 0 {
            let n = unsafe { libc::read(master, buf.as_mut_ptr() as *mut libc::c_void, buf.len()) };
            if n > 0 {
                out.extend_from_slice(&buf[..n as usize]);
            }
        }
        if pfd.revents & (libc::POLLHUP | libc::POLLERR) != 0 {
            hung_up = true;
            std::thread::sleep(Duration::from_millis(2));
        }
        if !hung_up && !pending.is_empty() && pfd.revents & libc::POLLOUT != 0 {
            // one line at a time: the terminal's line buffer is small
            let end = pending.iter().position(|b| *b == b'\n' || *b == 4).map(|p| p + 1).unwrap_or(pending.len());
            let n = unsafe { libc::write(master, pending.as_ptr() as *const libc::c_void, end) };
            if n > 0 {
                pending.drain(..n as usize);
            }
        }
        if !seen && String::from_utf8_lossy(&out).contains(marker_seen) {
            seen = true;
        }
        if seen && pending.is_empty() && !sent_eof {
            pending.push(4);
            sent_eof = true;
        }
    };
    unsafe { libc::close(master) };
    CliResult {
        code: status.and_then(|s| s.code()),
        signal: status.and_then(|s| s.signal()),
        stdout: String::from_utf8_lossy(&out).to_string(),
        stderr: if seen { "marker-seen".into() } else { "marker-not-seen".into() },
        timed_out,
    }
}
