//! C17 — unit conversion is consistent across the whole unit table.
//!
//! The unit table itself is the (finite) state space: every unit, identifier, ordered pair and
//! same-category triple is enumerated. Oracles are computed by the harness from the identifier
//! lists only (resolution), from an independent SI / binary prefix table (power ratios) and from
//! algebraic laws (identity, round trip, transitivity, category separation).

use crate::common::*;
use blots_core::units::{self, ConversionType, Unit, UnitCategory};
use serde_json::{Value as J, json};
use std::sync::atomic::{AtomicU64, Ordering};

const EPS: f64 = f64::EPSILON; // 2^-52

fn magnitudes(tier: Tier) -> Vec<f64> {
    let mut v = vec![0.0, 1.0, -1.0, 1e-12, 1e12, -1e-12, -1e12, 2.5, 37.0, 1e3, 1e-3, 451.67];
    if tier == Tier::Thorough {
        v.extend([1e-9, 1e9, 1e-6, 1e6, -1e6, 0.1, 3.0, 7.0, 1e-1, 123456.789, 98.6, -40.0]);
    }
    v
}

fn same_unit(a: &Unit, b: &Unit) -> bool {
    a.category == b.category && a.identifiers == b.identifiers
}

fn is_temp(u: &Unit) -> bool {
    matches!(u.conversion, ConversionType::Temperature { .. })
}

fn is_recip(u: &Unit) -> bool {
    matches!(u.conversion, ConversionType::Reciprocal { .. })
}

fn rel_close(a: f64, b: f64, ulps: f64) -> bool {
    if a == b {
        return true;
    }
    if !a.is_finite() || !b.is_finite() {
        return a == b || (a.is_nan() && b.is_nan());
    }
    let scale = a.abs().max(b.abs());
    (a - b).abs() <= ulps * EPS * scale
}

/// Independent prefix table: (long-name prefix, factor as (base, exponent)).
const PREFIXES: &[(&str, f64, i32)] = &[
    ("yocto", 10.0, -24),
    ("zepto", 10.0, -21),
    ("atto", 10.0, -18),
    ("femto", 10.0, -15),
    ("pico", 10.0, -12),
    ("nano", 10.0, -9),
    ("micro", 10.0, -6),
    ("milli", 10.0, -3),
    ("centi", 10.0, -2),
    ("deci", 10.0, -1),
    ("deca", 10.0, 1),
    ("deka", 10.0, 1),
    ("hecto", 10.0, 2),
    ("kilo", 10.0, 3),
    ("mega", 10.0, 6),
    ("giga", 10.0, 9),
    ("tera", 10.0, 12),
    ("peta", 10.0, 15),
    ("exa", 10.0, 18),
    ("zetta", 10.0, 21),
    ("yotta", 10.0, 24),
    ("kibi", 2.0, 10),
    ("mebi", 2.0, 20),
    ("gibi", 2.0, 30),
    ("tebi", 2.0, 40),
    ("pebi", 2.0, 50),
    ("exbi", 2.0, 60),
    ("zebi", 2.0, 70),
    ("yobi", 2.0, 80),
];

/// Exact comparison of `ratio` with base^exp: for base 10 via the correctly rounded decimal
/// literal, for base 2 exactly.
fn prefix_value(base: f64, exp: i32) -> f64 {
    if base == 2.0 {
        2f64.powi(exp)
    } else {
        format!("1e{}", exp).parse::<f64>().unwrap()
    }
}

pub fn run(ctx: &Ctx, replay: Option<&J>) -> i32 {
    let all = units::get_all_units();
    if let Some(r) = replay {
        // replay: re-evaluate one recorded conversion / resolution and print what is observed
        let c = &r["case"];
        match c["op"].as_str().unwrap_or("") {
            "resolve" => {
                let id = c["id"].as_str().unwrap_or("");
                println!("resolve_unit({:?}) = {:?}", id, units::resolve_unit(id).map(|u| u.identifiers[0]));
            }
            _ => {
                let x = c["x"].as_f64().unwrap_or(0.0);
                let a = c["from"].as_str().unwrap_or("");
                let b = c["to"].as_str().unwrap_or("");
                println!("convert({}, {:?}, {:?}) = {:?}", x, a, b, units::convert(x, a, b).map_err(|e| e.to_string()));
            }
        }
        println!("(replayed; expected: {}; originally observed: {})", r["expected"], r["observed"]);
        return 1;
    }
    let mags = magnitudes(ctx.tier);
    let n_ids: usize = all.iter().map(|u| u.identifiers.len()).sum();
    ctx.set("units", json!(all.len()));
    ctx.set("identifiers", json!(n_ids));

    // ---- 1. identifier resolution, computed independently from the identifier lists
    let mut probes: Vec<String> = vec![];
    for u in &all {
        for id in u.identifiers {
            probes.push(id.to_string());
            probes.push(id.to_uppercase());
            probes.push(id.to_lowercase());
            let mut c = id.chars();
            if let Some(f) = c.next() {
                probes.push(f.to_uppercase().collect::<String>() + c.as_str());
            }
            probes.push(format!("{}x", id));
            probes.push(format!(" {}", id));
        }
    }
    // every spelling obtained by replacing one character by another character with the same lowercase
    // form (compatibility letters such as the Kelvin, Ohm and Angstrom signs lowercase to k, ω and å)
    {
        let mut by_lower: std::collections::HashMap<String, Vec<char>> = Default::default();
        for cp in 0u32..0x3000 {
            if let Some(c) = char::from_u32(cp) {
                by_lower.entry(c.to_lowercase().collect()).or_default().push(c);
            }
        }
        for cp in [0x2126u32, 0x212a, 0x212b] {
            let c = char::from_u32(cp).unwrap();
            let e = by_lower.entry(c.to_lowercase().collect()).or_default();
            if !e.contains(&c) {
                e.push(c);
            }
        }
        let mut extra = vec![];
        for u in &all {
            for id in u.identifiers {
                let cs: Vec<char> = id.chars().collect();
                for (i, c) in cs.iter().enumerate() {
                    let key: String = c.to_lowercase().collect();
                    for alt in by_lower.get(&key).into_iter().flatten().filter(|a| *a != c) {
                        let mut v = cs.clone();
                        v[i] = *alt;
                        extra.push(v.into_iter().collect::<String>());
                    }
                }
            }
        }
        probes.extend(extra);
    }
    probes.extend(["", " ", "unknownunit", "meter s", "m/s/s", "K", "k", "C", "F", "MM", "T", "M", "PA", "pA"].iter().map(|s| s.to_string()));
    probes.sort();
    probes.dedup();
    for p in &probes {
        ctx.count(1);
        let pl = p.to_lowercase();
        let exact: Vec<&Unit> = all.iter().filter(|u| u.identifiers.iter().any(|i| i == p)).collect();
        let ci: Vec<&Unit> = all.iter().filter(|u| u.identifiers.iter().any(|i| i.to_lowercase() == pl)).collect();
        let expected: Result<&Unit, &str> = if exact.len() == 1 {
            Ok(exact[0])
        } else if exact.len() > 1 {
            Err("ambiguous")
        } else if ci.len() == 1 {
            Ok(ci[0])
        } else if ci.is_empty() {
            Err("unknown")
        } else {
            Err("ambiguous")
        };
        let got = catch(|| units::resolve_unit(p));
        let ok = match (&expected, &got) {
            (Ok(e), Ok(Ok(g))) => same_unit(e, g),
            (Err(_), Ok(Err(_))) => true,
            _ => false,
        };
        ctx.outcome(match &expected {
            Ok(_) => "resolve-ok",
            Err("unknown") => "resolve-unknown",
            Err(_) => "resolve-ambiguous",
        });
        ctx.nontrivial(&format!("resolve:{}", p));
        // an identifier that does not resolve is an error of `convert` in every position, also when
        // the same text is given on both sides
        if expected.is_err() {
            for (from, to) in [(p.as_str(), p.as_str()), (p.as_str(), "meter"), ("meter", p.as_str()), (p.as_str(), "celsius"), ("second", p.as_str())] {
                ctx.count(1);
                let r = catch(|| units::convert(1.5, from, to));
                ctx.outcome("convert-unresolved");
                if !matches!(r, Ok(Err(_))) {
                    ctx.violation(Violation {
                        kind: "unresolved-identifier-converted".into(),
                        class: "resolve".into(),
                        input: format!("convert(1.5, {:?}, {:?})", from, to),
                        expected: "an error (unknown or ambiguous unit)".into(),
                        observed: format!("{:?}", r.map(|x| x.map_err(|e| e.to_string()))),
                        case: json!({"op": "resolve", "id": p}),
                    });
                }
            }
        }
        if !ok {
            ctx.violation(Violation {
                kind: "resolution".into(),
                class: "resolve".into(),
                input: p.clone(),
                expected: format!("{:?}", expected.map(|u| u.identifiers[0])),
                observed: format!("{:?}", got.map(|r| r.map(|u| u.identifiers[0]).map_err(|e| e.to_string()))),
                case: json!({"op": "resolve", "id": p}),
            });
        }
    }
    // every listed identifier must resolve to its own unit (an alias listed twice breaks this)
    for u in &all {
        for id in u.identifiers {
            ctx.count(1);
            match catch(|| units::resolve_unit(id)) {
                Ok(Ok(g)) if same_unit(&g, u) => {}
                other => ctx.violation(Violation {
                    kind: "listed-identifier".into(),
                    class: "resolve".into(),
                    input: id.to_string(),
                    expected: format!("resolves to {} ({})", u.identifiers[0], u.category.name()),
                    observed: format!("{:?}", other.map(|r| r.map(|u| u.identifiers[0]).map_err(|e| e.to_string()))),
                    case: json!({"op": "resolve", "id": id}),
                }),
            }
        }
    }

    // ---- 2. all identifiers of a unit behave identically (bit-identical results)
    let cats: Vec<UnitCategory> = {
        let mut v: Vec<UnitCategory> = vec![];
        for u in &all {
            if !v.contains(&u.category) {
                v.push(u.category);
            }
        }
        v
    };
    let unit_idx: Vec<usize> = (0..all.len()).collect();
    let evals = AtomicU64::new(0);
    par_for(unit_idx.len(), |ui| {
        let u = &all[ui];
        let canon_id = u.identifiers[0];
        for other in all.iter().filter(|o| o.category == u.category) {
            for &x in &mags {
                let base_to = units::convert(x, canon_id, other.identifiers[0]).ok();
                let base_from = units::convert(x, other.identifiers[0], canon_id).ok();
                for id in u.identifiers.iter().skip(1) {
                    evals.fetch_add(2, Ordering::Relaxed);
                    let a = units::convert(x, id, other.identifiers[0]).ok();
                    let b = units::convert(x, other.identifiers[0], id).ok();
                    let same = |p: Option<f64>, q: Option<f64>| match (p, q) {
                        (Some(p), Some(q)) => p.to_bits() == q.to_bits() || (p.is_nan() && q.is_nan()),
                        (None, None) => true,
                        _ => false,
                    };
                    if !same(a, base_to) || !same(b, base_from) {
                        ctx.violation(Violation {
                            kind: "alias-differs".into(),
                            class: "alias".into(),
                            input: format!("{} vs {} against {} at {}", id, canon_id, other.identifiers[0], x),
                            expected: format!("{:?} / {:?}", base_to, base_from),
                            observed: format!("{:?} / {:?}", a, b),
                            case: json!({"op": "convert", "x": x, "from": id, "to": other.identifiers[0]}),
                        });
                    }
                }
            }
        }
        ctx.nontrivial(&format!("alias:{}", canon_id));
    });

    // ---- 3. identity, round trip, transitivity (every same-category triple), category separation
    par_for(all.len(), |ai| {
        let a = &all[ai];
        let an = a.identifiers[0];
        for b in &all {
            let bn = b.identifiers[0];
            if a.category != b.category {
                evals.fetch_add(1, Ordering::Relaxed);
                let r = catch(|| units::convert(1.0, an, bn));
                ctx.outcome("cross-category");
                if !matches!(r, Ok(Err(_))) {
                    ctx.violation(Violation {
                        kind: "cross-category".into(),
                        class: "category".into(),
                        input: format!("{} -> {}", an, bn),
                        expected: "error".into(),
                        observed: format!("{:?}", r.map(|x| x.map_err(|e| e.to_string()))),
                        case: json!({"op": "convert", "x": 1.0, "from": an, "to": bn}),
                    });
                }
                continue;
            }
            for &x in &mags {
                evals.fetch_add(2, Ordering::Relaxed);
                let ab = match catch(|| units::convert(x, an, bn)) {
                    Ok(Ok(v)) => v,
                    other => {
                        ctx.violation(Violation {
                            kind: "same-category-fails".into(),
                            class: "convert".into(),
                            input: format!("{} {} -> {}", x, an, bn),
                            expected: "a number".into(),
                            observed: format!("{:?}", other.map(|x| x.map_err(|e| e.to_string()))),
                            case: json!({"op": "convert", "x": x, "from": an, "to": bn}),
                        });
                        continue;
                    }
                };
                if ai == all.iter().position(|u| same_unit(u, b)).unwrap() {
                    // identity
                    ctx.outcome("identity");
                    let ok = if is_temp(a) { (ab - x).abs() <= 1e-9 * x.abs().max(300.0) } else { rel_close(ab, x, 2.0) || (is_recip(a) && x == 0.0) };
                    if !ok {
                        ctx.violation(Violation {
                            kind: "identity".into(),
                            class: "law".into(),
                            input: format!("{} {} -> {}", x, an, bn),
                            expected: format!("{}", x),
                            observed: format!("{}", ab),
                            case: json!({"op": "convert", "x": x, "from": an, "to": bn}),
                        });
                    }
                    continue;
                }
                if !ab.is_finite() {
                    ctx.outcome("non-finite-intermediate");
                    continue;
                }
                // round trip
                let back = units::convert(ab, bn, an).unwrap_or(f64::NAN);
                ctx.outcome("round-trip");
                let ok = if is_temp(a) {
                    (back - x).abs() <= 1e-9 * x.abs().max(300.0)
                } else if is_recip(a) != is_recip(b) && x == 0.0 {
                    true
                } else {
                    rel_close(back, x, 8.0)
                };
                if !ok {
                    ctx.violation(Violation {
                        kind: "round-trip".into(),
                        class: "law".into(),
                        input: format!("{} {} -> {} -> {}", x, an, bn, an),
                        expected: format!("{}", x),
                        observed: format!("{} (via {})", back, ab),
                        case: json!({"op": "convert", "x": x, "from": an, "to": bn}),
                    });
                }
                // transitivity through every c
                for c in all.iter().filter(|c| c.category == a.category) {
                    let cn = c.identifiers[0];
                    evals.fetch_add(2, Ordering::Relaxed);
                    let bc = units::convert(ab, bn, cn).unwrap_or(f64::NAN);
                    let ac = units::convert(x, an, cn).unwrap_or(f64::NAN);
                    ctx.outcome("transitivity");
                    let ok = if !bc.is_finite() || !ac.is_finite() {
                        bc == ac || (bc.is_nan() && ac.is_nan()) || is_recip(a) != is_recip(c) || is_recip(a) != is_recip(b)
                    } else if is_temp(a) {
                        (bc - ac).abs() <= 1e-9 * ac.abs().max(300.0)
                    } else {
                        rel_close(bc, ac, 12.0)
                    };
                    if !ok {
                        ctx.violation(Violation {
                            kind: "transitivity".into(),
                            class: "law".into(),
                            input: format!("{} {} -> {} -> {} vs direct", x, an, bn, cn),
                            expected: format!("{}", ac),
                            observed: format!("{}", bc),
                            case: json!({"op": "convert", "x": x, "from": an, "to": cn}),
                        });
                    }
                }
            }
        }
        ctx.nontrivial(&format!("laws:{}", an));
    });
    ctx.count(evals.load(Ordering::Relaxed) as usize);

    // ---- 4. metric / binary prefixes: prefixed long name vs base long name in the same category
    let mut prefix_pairs = 0usize;
    for u in &all {
        for v in all.iter().filter(|v| v.category == u.category && !same_unit(u, v)) {
            for uid in u.identifiers {
                for vid in v.identifiers {
                    if vid.len() < 4 {
                        continue; // symbols: "m" + "in" would be a false match
                    }
                    for (p, base, exp) in PREFIXES {
                        if uid.len() == p.len() + vid.len() && uid.starts_with(p) && uid.ends_with(vid) {
                            prefix_pairs += 1;
                            ctx.count(1);
                            let want = prefix_value(*base, *exp);
                            let got = units::convert(1.0, uid, vid).unwrap_or(f64::NAN);
                            ctx.nontrivial(&format!("prefix:{}:{}", uid, vid));
                            if !rel_close(got, want, 4.0) {
                                ctx.violation(Violation {
                                    kind: "prefix-ratio".into(),
                                    class: "prefix".into(),
                                    input: format!("1 {} in {}", uid, vid),
                                    expected: format!("{}^{} = {}", base, exp, want),
                                    observed: format!("{}", got),
                                    case: json!({"op": "convert", "x": 1.0, "from": uid, "to": vid}),
                                });
                            }
                        }
                    }
                }
            }
        }
    }
    ctx.set("prefix_pairs", json!(prefix_pairs));

    // ---- 5. the `convert` built-in agrees with units::convert on every ordered same-category pair
    let pairs: Vec<(usize, usize)> = (0..all.len())
        .flat_map(|i| (0..all.len()).map(move |j| (i, j)))
        .filter(|(i, j)| all[*i].category == all[*j].category)
        .collect();
    // identifier-level pairs: (a) every identifier of every unit -> the first identifier of every unit of
    // its category, (b) every two identifiers (and their upper / lower case variants) that are equal
    // ignoring ASCII case but differently spelled, whatever their categories, (c) every ordered pair of
    // first identifiers of different categories (never convertible)
    let mut id_pairs: Vec<(String, String)> = vec![];
    for (i, j) in &pairs {
        id_pairs.push((all[*i].identifiers[0].to_string(), all[*j].identifiers[0].to_string()));
        for a in all[*i].identifiers.iter().skip(1) {
            id_pairs.push((a.to_string(), all[*j].identifiers[0].to_string()));
        }
    }
    {
        let mut spellings: Vec<String> = vec![];
        for u in &all {
            for id in u.identifiers.iter() {
                spellings.push(id.to_string());
                spellings.push(id.to_uppercase());
                spellings.push(id.to_lowercase());
            }
        }
        spellings.sort();
        spellings.dedup();
        let mut by_fold: std::collections::BTreeMap<String, Vec<String>> = Default::default();
        for sp in spellings {
            by_fold.entry(sp.to_ascii_lowercase()).or_default().push(sp);
        }
        for group in by_fold.values() {
            for a in group {
                for b in group {
                    id_pairs.push((a.clone(), b.clone()));
                }
            }
        }
        for i in 0..all.len() {
            for j in 0..all.len() {
                if all[i].category != all[j].category {
                    id_pairs.push((all[i].identifiers[0].to_string(), all[j].identifiers[0].to_string()));
                }
            }
        }
        id_pairs.sort();
        id_pairs.dedup();
    }
    // the same spelling passed twice *as one value* (a variable used for both unit arguments): every
    // probe of section 1, known, unknown or ambiguous
    {
        let q = |s: &str| if s.contains('"') { format!("'{}'", s) } else { format!("\"{}\"", s) };
        let plain: Vec<&String> = probes.iter().filter(|p| !(p.contains('"') && p.contains('\'')) && !p.contains('\n')).collect();
        par_for(plain.len(), |k| {
            let p = plain[k];
            let src = format!("u = {}\n[convert(2.5, u, u), ((a) => convert(2.5, a, a))(u)]", q(p));
            let got = eval_fresh(&src);
            let want = units::convert(2.5, p, p).map(|v| format!("[{}, {}]", num_repr(v), num_repr(v)));
            ctx.count(1);
            ctx.outcome("builtin-same-value-twice");
            let ok = match (&got, &want) {
                (Outcome::Ok(g), Ok(w)) => g == w,
                (Outcome::EvalError(_), Err(_)) => true,
                _ => false,
            };
            if !ok {
                ctx.violation(Violation {
                    kind: "builtin-differs".into(),
                    class: "builtin-same-value-twice".into(),
                    input: src.replace('\n', " ; "),
                    expected: format!("{:?}", want.map_err(|e| e.to_string())),
                    observed: format!("{:?}", got),
                    case: json!({"op": "convert", "x": 2.5, "from": p, "to": p}),
                });
            }
        });
    }
    ctx.set("builtin_identifier_pairs", json!(id_pairs.len()));
    par_for(id_pairs.len(), |k| {
        let (a, b) = (id_pairs[k].0.as_str(), id_pairs[k].1.as_str());
        let q = |s: &str| if s.contains('"') { format!("'{}'", s) } else { format!("\"{}\"", s) };
        let src = format!("convert(2.5, {}, {})", q(a), q(b));
        let got = eval_fresh(&src);
        let want = units::convert(2.5, a, b).map(|v| num_repr(v));
        ctx.count(1);
        let ok = match (&got, &want) {
            (Outcome::Ok(g), Ok(w)) => g == w,
            (Outcome::EvalError(_), Err(_)) => true,
            _ => false,
        };
        if !ok {
            ctx.violation(Violation {
                kind: "builtin-differs".into(),
                class: "builtin".into(),
                input: src,
                expected: format!("{:?}", want.map_err(|e| e.to_string())),
                observed: format!("{:?}", got),
                case: json!({"op": "convert", "x": 2.5, "from": a, "to": b}),
            });
        }
    });

    ctx.sample(json!({"resolve": "KM", "expected": "kilometers (unique case-insensitive match)"}));
    ctx.sample(json!({"triple": ["miles", "kilometers", "feet"], "magnitude": 1e12}));
    ctx.sample(json!({"prefix": "1 kilometers in meters == 10^3"}));
    ctx.set("categories", json!(cats.len()));
    ctx.set("magnitudes", json!(mags));
    ctx.require_outcome("resolve-ok", 500);
    ctx.require_outcome("resolve-unknown", 100);
    ctx.require_outcome("resolve-ambiguous", 1);
    ctx.require_outcome("transitivity", 10_000);
    ctx.require_outcome("cross-category", 10_000);
    if prefix_pairs < 20 {
        ctx.machinery_error(format!("vacuity guard: only {} prefixed name pairs found", prefix_pairs));
    }
    ctx.assume("tolerances: identity 2 ulp, round trip 8 ulp, A->B->C vs A->C 12 ulp relative; temperature 1e-9 relative to max(|x|, 300)");
    finish(
        ctx,
        "exploration",
        "the whole unit table: every identifier (plus upper/lower/capitalised/suffixed/padded variants and every single-character replacement by another character with the same lowercase form, e.g. the Kelvin / Ohm / Angstrom signs) for resolution; every unit x every alias x every same-category partner x magnitudes for alias equivalence; every ordered pair and same-category triple x magnitudes for the laws; every (prefixed long name, base long name) pair against an independent prefix table; distinct = one key per identifier probe / unit / prefix pair",
        true,
        None,
    )
}
