//! The real blots-wasm source compiled natively against stand-in wasm-bindgen crates.
#![allow(dead_code)]
#[path = "/repo/blots-wasm/src/lib.rs"]
pub mod blots_wasm;
