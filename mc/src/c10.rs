//! C10 — fixed precedence table, layout insensitivity, all plain names usable.

use crate::common::*;
use crate::parse::*;
use crate::tgen::*;
use blots_core::ast::BinaryOp;
use serde_json::{Value as J, json};

// ---------------------------------------------------------------------------------------------
// (a) reference parser for operator chains, built from the property's table only

#[derive(Clone, Copy, PartialEq, Debug)]
enum Pre {
    None,
    Neg,
    Bang,
    Not,
    NegNot,
    NotNeg,
    NegNeg,
}

#[derive(Clone, Copy, PartialEq, Debug)]
enum Post {
    None,
    Fact,
    Index,
    Field,
    Call,
    FactIndex,
    IndexFact,
    CallField,
}

const PRES: [Pre; 7] = [Pre::None, Pre::Neg, Pre::Bang, Pre::Not, Pre::NegNot, Pre::NotNeg, Pre::NegNeg];
const POSTS: [Post; 8] = [Post::None, Post::Fact, Post::Index, Post::Field, Post::Call, Post::FactIndex, Post::IndexFact, Post::CallField];

fn pre_text(p: Pre) -> &'static str {
    match p {
        Pre::None => "",
        Pre::Neg => "-",
        Pre::Bang => "!",
        Pre::Not => "not ",
        Pre::NegNot => "-not ",
        Pre::NotNeg => "not -",
        Pre::NegNeg => "--",
    }
}

fn post_text(p: Post) -> &'static str {
    match p {
        Post::None => "",
        Post::Fact => "!",
        Post::Index => "[0]",
        Post::Field => ".k",
        Post::Call => "(1)",
        Post::FactIndex => "![0]",
        Post::IndexFact => "[0]!",
        Post::CallField => "(1).k",
    }
}

/// operand tree: postfix operators apply first (left to right), then prefix operators
fn operand(name: &str, pre: Pre, post: Post) -> T {
    operand_on(T::id(name), pre, post)
}

fn operand_on(base: T, pre: Pre, post: Post) -> T {
    let mut t = base;
    let apply_post = |t: T, p: &str| -> T {
        match p {
            "!" => T::Fact(Box::new(t)),
            "[0]" => T::Index(Box::new(t), Box::new(T::num(0.0))),
            ".k" => T::Field(Box::new(t), "k".into()),
            "(1)" => T::Call(Box::new(t), vec![T::num(1.0)]),
            _ => unreachable!(),
        }
    };
    let posts: &[&str] = match post {
        Post::None => &[],
        Post::Fact => &["!"],
        Post::Index => &["[0]"],
        Post::Field => &[".k"],
        Post::Call => &["(1)"],
        Post::FactIndex => &["!", "[0]"],
        Post::IndexFact => &["[0]", "!"],
        Post::CallField => &["(1)", ".k"],
    };
    for p in posts {
        t = apply_post(t, p);
    }
    let pres: &[&str] = match pre {
        Pre::None => &[],
        Pre::Neg => &["-"],
        Pre::Bang => &["!"],
        Pre::Not => &["not"],
        Pre::NegNot => &["-", "not"],
        Pre::NotNeg => &["not", "-"],
        Pre::NegNeg => &["-", "-"],
    };
    for p in pres.iter().rev() {
        t = match *p {
            "-" => T::Neg(Box::new(t)),
            "!" => T::Bang(Box::new(t)),
            _ => T::NotW(Box::new(t)),
        };
    }
    t
}

/// Precedence climbing over `operands[0] ops[0] operands[1] ...` using `spec_level`.
fn climb(operands: &[T], ops: &[BinaryOp]) -> T {
    fn go(pos: &mut usize, operands: &[T], ops: &[BinaryOp], min_level: u8) -> T {
        let mut lhs = operands[*pos].clone();
        while *pos < ops.len() {
            let op = ops[*pos];
            let (lvl, right) = spec_level(op);
            if lvl < min_level {
                break;
            }
            *pos += 1;
            let next_min = if right { lvl } else { lvl + 1 };
            let rhs = go(pos, operands, ops, next_min);
            lhs = T::bin(op, lhs, rhs);
        }
        lhs
    }
    let mut pos = 0;
    go(&mut pos, operands, ops, 0)
}

fn chain_text(operand_texts: &[String], ops: &[BinaryOp]) -> String {
    let mut s = operand_texts[0].clone();
    for (i, op) in ops.iter().enumerate() {
        s.push(' ');
        s.push_str(op_text(*op));
        s.push(' ');
        s.push_str(&operand_texts[i + 1]);
    }
    s
}

fn check_text(ctx: &Ctx, kind: &str, class: &str, text: &str, expected: &T) {
    ctx.count(1);
    let want = expected.to_expr();
    let got = parse_one(text);
    let full = expected.full();
    let got_full = parse_one(&full);
    let ok = matches!(&got, Ok(e) if *e == want);
    let ok_full = matches!(&got_full, Ok(e) if *e == want);
    if !ok {
        ctx.violation(Violation {
            kind: kind.to_string(),
            class: class.to_string(),
            input: text.to_string(),
            expected: expr_canon(&want),
            observed: match &got {
                Ok(e) => expr_canon(e),
                Err(m) => format!("parse failure: {}", truncate(m, 160)),
            },
            case: json!({"text": text, "full": full}),
        });
    }
    if !ok_full {
        ctx.violation(Violation {
            kind: format!("{}-parenthesised", kind),
            class: class.to_string(),
            input: full.clone(),
            expected: expr_canon(&want),
            observed: match &got_full {
                Ok(e) => expr_canon(e),
                Err(m) => format!("parse failure: {}", truncate(m, 160)),
            },
            case: json!({"text": full, "full": full}),
        });
    }
}

/// Canonical tree text with negation folded into number literals: `(neg 5)` and the literal `-5` are
/// the same constant, and the table does not say which of the two a parser must build.
fn fold_negated_literals(canon: &str) -> String {
    let mut s = canon.to_string();
    loop {
        let Some(start) = s.find("(neg ") else { return s };
        // look for an occurrence whose operand is a single number token
        let mut replaced = false;
        let mut from = start;
        while let Some(off) = s[from..].find("(neg ") {
            let a = from + off;
            let rest = &s[a + 5..];
            let end = rest.find(|c: char| c == ')' || c == '(' || c == ' ').unwrap_or(rest.len());
            let tok = &rest[..end];
            if rest[end..].starts_with(')') && tok.contains('#') {
                if let Some(bits) = tok.rsplit('#').next().and_then(|h| u64::from_str_radix(h, 16).ok()) {
                    let folded = num_repr(f64::from_bits(bits ^ (1u64 << 63)));
                    s = format!("{}{}{}", &s[..a], folded, &rest[end + 1..]);
                    replaced = true;
                    break;
                }
            }
            from = a + 5;
        }
        if !replaced {
            return s;
        }
    }
}

/// As `check_text`, for operands that are literals: trees are compared after folding negated number
/// literals on both sides.
fn check_text_literal(ctx: &Ctx, class: &str, text: &str, expected: &T) {
    ctx.count(1);
    let want = fold_negated_literals(&expr_canon(&expected.to_expr()));
    for (what, src) in [("prefix-postfix-literal", text.to_string()), ("prefix-postfix-literal-parenthesised", expected.full())] {
        let got = parse_one(&src);
        let ok = matches!(&got, Ok(e) if fold_negated_literals(&expr_canon(e)) == want);
        if !ok {
            ctx.violation(Violation {
                kind: what.to_string(),
                class: class.to_string(),
                input: src.clone(),
                expected: want.clone(),
                observed: match &got {
                    Ok(e) => expr_canon(e),
                    Err(m) => format!("parse failure: {}", truncate(m, 160)),
                },
                case: json!({"text": src, "full": expected.full(), "fold": true}),
            });
        }
    }
}

// ---------------------------------------------------------------------------------------------
// (d) layout renderer with choice sites

#[derive(Clone, Copy, PartialEq, Eq, Debug, Hash)]
enum Site {
    SymLeft,
    SymRight,
    NatLeft,
    NatRight,
    NotAfter,
    ParenOpen,
    ParenClose,
    ListOpen,
    ListComma,
    ListClose,
    RecColonBefore,
    RecColonAfter,
    CallOpen,
    CallComma,
    CallClose,
    ArrowBefore,
    ArrowAfter,
    LamArgComma,
    /// between an optional parameter's name and its `?`, and between `...` and a rest parameter's name
    LamOptGap,
    LamRestGap,
    LamParenInner,
    IfAfter,
    CondGap,
    AccessOpen,
    AccessClose,
    AssignGap,
    DoKeywordGap,
    DoAfterBrace,
    DoSeparator,
    DoBeforeReturn,
    DoReturnGap,
    DoAfterReturn,
    /// redundant parentheses around a sub-term: "" or wrap
    Redundant,
}

fn options(s: Site) -> &'static [&'static str] {
    match s {
        Site::SymLeft | Site::SymRight => &[" ", "", "  ", "\n", " \n ", " //c\n", "\n\n", "\t"],
        Site::NatLeft => &[" ", "\n", " \n ", " //c\n ", "  "],
        Site::NatRight => &[" ", "  ", "\t"],
        Site::NotAfter => &[" ", "  ", "\t"],
        Site::ParenOpen | Site::ParenClose => &["", " ", "\n", " //c\n", "\n  "],
        Site::ListOpen => &["", " ", "\n", "\n  ", " //c\n", "\n//c\n"],
        Site::ListComma => &[" ", "", "\n", "\n  ", " //c\n", "  "],
        Site::ListClose => &["", " ", "\n", ",", ", ", ",\n", "\n//c\n", ", //c\n"],
        Site::RecColonBefore => &["", " "],
        Site::RecColonAfter => &[" ", "", "\n", " //c\n", "  "],
        Site::CallOpen => &["", " ", "\n", " //c\n", "\n  "],
        Site::CallComma => &[" ", "", "\n", " //c\n", "  "],
        Site::CallClose => &["", " ", "\n", ",\n", ", \n", ", //c\n"],
        Site::ArrowBefore => &[" ", "", "  "],
        Site::ArrowAfter => &[" ", "", "\n", "\n  ", " //c\n", "  "],
        Site::LamArgComma => &[" ", "", "\n", "  "],
        Site::LamOptGap => &["", " ", "\t", "  ", " \t "],
        Site::LamRestGap => &["", " ", "\t", "  "],
        Site::LamParenInner => &["", " ", "\t", "\n"],
        Site::IfAfter => &[" ", "  ", "\t"],
        Site::CondGap => &[" ", "\n", "\n  ", " //c\n", "  "],
        Site::AccessOpen | Site::AccessClose => &["", "\n", "//c\n", "\n\n"],
        Site::AssignGap => &[" ", "", "  "],
        Site::DoKeywordGap => &[" ", "  ", "\n", " \n "],
        Site::DoAfterBrace => &["\n  ", " ", "\n\n  ", " //c\n  ", "\n  //c\n  ", "\t"],
        Site::DoSeparator => &["\n  ", "; ", ";", " ;\n  ", "\n\n  ", "\n  //c\n  ", ";  //c\n"],
        Site::DoBeforeReturn => &["\n  ", "; ", "\n//c\n", ";\n\n"],
        Site::DoReturnGap => &[" ", "  ", "\t"],
        Site::DoAfterReturn => &["\n", " ", "", "\n\n "],
        Site::Redundant => &["", "(", "(("],
    }
}

struct Layout<'a> {
    /// chosen option index per site (by visit order); default 0
    choice: &'a dyn Fn(usize, Site) -> usize,
    sites: Vec<Site>,
    out: String,
}

impl<'a> Layout<'a> {
    fn gap(&mut self, s: Site) {
        let idx = self.sites.len();
        self.sites.push(s);
        let opts = options(s);
        let k = (self.choice)(idx, s) % opts.len();
        self.out.push_str(opts[k]);
    }

    fn redundant(&mut self, f: impl FnOnce(&mut Self)) {
        let idx = self.sites.len();
        self.sites.push(Site::Redundant);
        let k = (self.choice)(idx, Site::Redundant) % 3;
        for _ in 0..k {
            self.out.push('(');
        }
        f(self);
        for _ in 0..k {
            self.out.push(')');
        }
    }

    /// operand position: compound operands are parenthesised (with layout inside the parens)
    fn operand(&mut self, t: &T) {
        if t.is_leaf() {
            self.redundant(|s| s.expr(t));
        } else {
            self.out.push('(');
            self.gap(Site::ParenOpen);
            self.expr(t);
            self.gap(Site::ParenClose);
            self.out.push(')');
        }
    }

    fn items(&mut self, items: &[T], comma: Site) {
        for (i, it) in items.iter().enumerate() {
            if i > 0 {
                self.out.push(',');
                self.gap(comma);
            }
            match it {
                T::Spread(x) => {
                    self.out.push_str("...");
                    self.operand(x);
                }
                o => self.operand(o),
            }
        }
    }

    fn expr(&mut self, t: &T) {
        match t {
            T::Num(_) | T::Str(_) | T::Bool(_) | T::Null | T::Id(_) | T::Inp(_) => self.out.push_str(&t.full()),
            T::List(items) => {
                self.out.push('[');
                if !items.is_empty() {
                    self.gap(Site::ListOpen);
                    self.items(items, Site::ListComma);
                    self.gap(Site::ListClose);
                }
                self.out.push(']');
            }
            T::Rec(es) => {
                self.out.push('{');
                if !es.is_empty() {
                    self.gap(Site::ListOpen);
                    for (i, e) in es.iter().enumerate() {
                        if i > 0 {
                            self.out.push(',');
                            self.gap(Site::ListComma);
                        }
                        match e {
                            RE::Kv(k, v) => {
                                self.out.push_str(k);
                                self.gap(Site::RecColonBefore);
                                self.out.push(':');
                                self.gap(Site::RecColonAfter);
                                self.operand(v);
                            }
                            RE::Qkv(k, v) => {
                                self.out.push_str(&format!("\"{}\"", k));
                                self.gap(Site::RecColonBefore);
                                self.out.push(':');
                                self.gap(Site::RecColonAfter);
                                self.operand(v);
                            }
                            RE::Dyn(k, v) => {
                                self.out.push('[');
                                self.operand(k);
                                self.out.push(']');
                                self.gap(Site::RecColonBefore);
                                self.out.push(':');
                                self.gap(Site::RecColonAfter);
                                self.operand(v);
                            }
                            RE::Short(n) => self.out.push_str(n),
                            RE::Spread(v) => {
                                self.out.push_str("...");
                                self.operand(v);
                            }
                        }
                    }
                    self.gap(Site::ListClose);
                }
                self.out.push('}');
            }
            T::Lam(args, body) => {
                self.out.push('(');
                if !args.is_empty() {
                    self.gap(Site::LamParenInner);
                }
                for (i, a) in args.iter().enumerate() {
                    if i > 0 {
                        self.out.push(',');
                        self.gap(Site::LamArgComma);
                    }
                    match a {
                        LArg::Req(n) => self.out.push_str(n),
                        LArg::Opt(n) => {
                            self.out.push_str(n);
                            self.gap(Site::LamOptGap);
                            self.out.push('?');
                        }
                        LArg::Rest(n) => {
                            self.out.push_str("...");
                            self.gap(Site::LamRestGap);
                            self.out.push_str(n);
                        }
                    }
                }
                if !args.is_empty() {
                    self.gap(Site::LamParenInner);
                }
                self.out.push(')');
                self.gap(Site::ArrowBefore);
                self.out.push_str("=>");
                self.gap(Site::ArrowAfter);
                self.operand(body);
            }
            T::Cond(c, a, b) => {
                self.out.push_str("if");
                self.gap(Site::IfAfter);
                self.operand(c);
                self.gap(Site::CondGap);
                self.out.push_str("then");
                self.gap(Site::CondGap);
                self.operand(a);
                self.gap(Site::CondGap);
                self.out.push_str("else");
                self.gap(Site::CondGap);
                self.operand(b);
            }
            T::Do(stmts, ret) => {
                self.out.push_str("do");
                self.gap(Site::DoKeywordGap);
                self.out.push('{');
                self.gap(Site::DoAfterBrace);
                for (i, s) in stmts.iter().enumerate() {
                    self.expr(s);
                    if i + 1 < stmts.len() {
                        self.gap(Site::DoSeparator);
                    } else {
                        self.gap(Site::DoBeforeReturn);
                    }
                }
                self.out.push_str("return");
                self.gap(Site::DoReturnGap);
                self.operand(ret);
                self.gap(Site::DoAfterReturn);
                self.out.push('}');
            }
            T::Assign(n, v) => {
                self.out.push_str(n);
                self.gap(Site::AssignGap);
                self.out.push('=');
                self.gap(Site::AssignGap);
                self.operand(v);
            }
            T::Call(f, args) => {
                self.operand(f);
                self.out.push('(');
                if !args.is_empty() {
                    self.gap(Site::CallOpen);
                    self.items(args, Site::CallComma);
                    self.gap(Site::CallClose);
                }
                self.out.push(')');
            }
            T::Index(a, i) => {
                self.operand(a);
                self.out.push('[');
                self.gap(Site::AccessOpen);
                self.operand(i);
                self.gap(Site::AccessClose);
                self.out.push(']');
            }
            T::Field(a, f) => {
                self.operand(a);
                self.out.push('.');
                self.out.push_str(f);
            }
            T::Bin(op, a, b) => {
                let natural = matches!(op, BinaryOp::NaturalAnd | BinaryOp::NaturalOr | BinaryOp::Via | BinaryOp::Into | BinaryOp::Where);
                self.operand(a);
                self.gap(if natural { Site::NatLeft } else { Site::SymLeft });
                self.out.push_str(op_text(*op));
                self.gap(if natural { Site::NatRight } else { Site::SymRight });
                self.operand(b);
            }
            T::Neg(a) => {
                self.out.push('-');
                self.operand(a);
            }
            T::Bang(a) => {
                self.out.push('!');
                self.operand(a);
            }
            T::NotW(a) => {
                self.out.push_str("not");
                self.gap(Site::NotAfter);
                self.operand(a);
            }
            T::Fact(a) => {
                self.operand(a);
                self.out.push('!');
            }
            T::Spread(a) => {
                self.out.push_str("...");
                self.operand(a);
            }
            T::Output(a) => {
                self.out.push_str("output ");
                self.expr(a);
            }
        }
    }
}

fn render(t: &T, choice: &dyn Fn(usize, Site) -> usize) -> (String, Vec<Site>) {
    let mut l = Layout { choice, sites: vec![], out: String::new() };
    l.expr(t);
    (l.out, l.sites)
}

fn layout_checks(ctx: &Ctx, t: &T, thorough: bool) {
    let want = t.to_expr();
    let (base, sites) = render(t, &|_, _| 0);
    let check1 = |text: &str, what: String| {
        ctx.count(1);
        let got = parse_one(text);
        if !matches!(&got, Ok(e) if *e == want) {
            ctx.violation(Violation {
                kind: "layout".into(),
                class: what.clone(),
                input: text.to_string(),
                expected: format!("same tree as `{}`: {}", base, expr_canon(&want)),
                observed: match &got {
                    Ok(e) => expr_canon(e),
                    Err(m) => format!("parse failure: {}", truncate(m, 200)),
                },
                case: json!({"text": text, "base": base}),
            });
        }
    };
    let check = |text: &str, what: String| {
        check1(text, what.clone());
        // the same layout with Windows line endings
        if text.contains('\n') {
            check1(&text.replace('\n', "\r\n"), format!("{}+crlf", what));
        }
    };
    check(&base, "base".into());
    ctx.nontrivial(&base);
    // single variations: every option at every site
    for (i, s) in sites.iter().enumerate() {
        for k in 1..options(*s).len() {
            let (text, _) = render(t, &|j, _| if j == i { k } else { 0 });
            check(&text, format!("{:?}:{:?}", s, options(*s)[k]));
            ctx.outcome("layout-single");
        }
    }
    // every pair of sites, two non-default options each (all options when thorough)
    for i in 0..sites.len() {
        for j in (i + 1)..sites.len() {
            let ki_max = if thorough { options(sites[i]).len() } else { 3.min(options(sites[i]).len()) };
            let kj_max = if thorough { options(sites[j]).len() } else { 3.min(options(sites[j]).len()) };
            for ki in 1..ki_max {
                for kj in 1..kj_max {
                    let (text, _) = render(t, &|x, _| if x == i { ki } else if x == j { kj } else { 0 });
                    check(&text, format!("{:?}+{:?}", sites[i], sites[j]));
                    ctx.outcome("layout-pair");
                }
            }
        }
    }
    // all at once: option k (cyclically) at every site
    for k in 1..8 {
        let (text, _) = render(t, &|x, _| k + x % 2);
        check(&text, format!("all-at-once-{}", k));
        ctx.outcome("layout-all");
    }
    // end-of-line comment after the statement, surrounding blank lines and comment lines
    for (pre, post) in [("", " // trailing"), ("// leading\n", ""), ("\n\n", "\n\n"), ("", "  "), ("// a\n// b\n", "\n// c")] {
        check(&format!("{}{}{}", pre, base, post), "statement-surroundings".into());
    }
}

// ---------------------------------------------------------------------------------------------
// (e) identifiers

const RESERVED_WORDS: [&str; 12] = ["if", "then", "else", "true", "false", "null", "and", "or", "not", "do", "return", "output"];

fn names(thorough: bool) -> Vec<String> {
    let mut v: Vec<String> = vec![];
    let chars: Vec<char> = ('a'..='z').chain('A'..='Z').chain('0'..='9').chain(['_']).collect();
    for w in RESERVED_WORDS {
        for c in &chars {
            v.push(format!("{}{}", w, c));
            if !c.is_ascii_digit() {
                v.push(format!("{}{}", c, w));
            }
        }
        v.push(format!("{}_{}", w, w));
        v.push(format!("{}{}", w, w));
        v.push(w.to_uppercase());
        let mut cs = w.chars();
        let f = cs.next().unwrap();
        v.push(format!("{}{}", f.to_uppercase(), cs.as_str()));
        for w2 in RESERVED_WORDS {
            if thorough || w2.len() <= 3 {
                v.push(format!("{}{}", w, w2));
                v.push(format!("{}_{}", w, w2));
            }
        }
    }
    for s in [
        "trueish", "falsey", "null_count", "nullable", "android", "iffy", "nothing", "orange", "done", "returned", "outputs", "thenceforth",
        "elsewhere", "notation", "order", "dot", "x", "_", "__", "_1", "a1", "A", "x_y_z", "via_x", "viaduct", "into_it", "wherever", "infx",
        "input", "constant", "e", "pi",
    ] {
        v.push(s.to_string());
    }
    v.sort();
    v.dedup();
    // names that are not plain bindable names by C03 (built-ins, inputs, constants, inf/infinity)
    v.retain(|n| {
        !RESERVED_WORDS.contains(&n.as_str())
            && blots_core::functions::BuiltInFunction::from_ident(n).is_none()
            && !["inputs", "constants", "inf", "infinity", "via", "into", "where"].contains(&n.as_str())
    });
    v
}

fn name_class(n: &str) -> String {
    for w in RESERVED_WORDS {
        if n.starts_with(w) {
            return format!("prefix:{}", w);
        }
    }
    for w in RESERVED_WORDS {
        if n.ends_with(w) {
            return format!("suffix:{}", w);
        }
    }
    "other".into()
}

fn identifier_checks(ctx: &Ctx, n: &str) {
    let seven = num_repr(7.0);
    let contexts: Vec<(String, String, String)> = vec![
        // (binding, expression, expected canonical value)
        (format!("{} = 7", n), format!("{} + 1", n), num_repr(8.0)),
        (format!("{} = 7", n), format!("1 + {}", n), num_repr(8.0)),
        (format!("{} = 7", n), format!("[{}]", n), format!("[{}]", seven)),
        (format!("{} = 7", n), format!("abs({})", n), seven.clone()),
        (format!("{} = 7", n), format!("(() => {})()", n), seven.clone()),
        (format!("{} = 7", n), format!("{{k: {}}}.k", n), seven.clone()),
        (format!("{} = 7", n), format!("{{{}}}", n), format!("{{{:?}: {}}}", n, seven)),
        (format!("{} = 7", n), format!("if true then {} else 0", n), seven.clone()),
        (format!("{} = 7", n), format!("if false then 0 else {}", n), seven.clone()),
        (format!("{} = 7", n), format!("if {} == 7 then 1 else 0", n), num_repr(1.0)),
        (format!("{} = 7", n), format!("do {{ t = {}; return t }}", n), seven.clone()),
        (format!("{} = 7", n), format!("do {{\n  return {}\n}}", n), seven.clone()),
        (format!("{} = 7", n), format!("[5, 6, 7, 8, 9, 10, 11, 12][{}]", n), num_repr(12.0)),
        (format!("{} = 7", n), format!("[...[{}]]", n), format!("[{}]", seven)),
        (format!("{} = 7", n), format!("-{}", n), num_repr(-7.0)),
        (format!("{} = 7", n), format!("{} ?? 0", n), seven.clone()),
        (format!("{} = 7", n), format!("({})", n), seven.clone()),
        (format!("{} = 7", n), format!("{}\n+ 1", n), num_repr(8.0)),
        (format!("{} = true", n), format!("not {}", n), "false".into()),
        (format!("{} = true", n), format!("!{}", n), "false".into()),
        (format!("{} = true", n), format!("{} and true", n), "true".into()),
        (format!("{} = true", n), format!("false or {}", n), "true".into()),
        (format!("{} = x => x + 1", n), format!("{}(1)", n), num_repr(2.0)),
        (format!("{} = x => x + 1", n), format!("[1] via {}", n), format!("[{}]", num_repr(2.0))),
        (format!("{} = {{k: 1}}", n), format!("{}.k", n), num_repr(1.0)),
        (format!("{} = [4]", n), format!("{}[0]", n), num_repr(4.0)),
        (format!("{} = [4]", n), format!("[...{}]", n), format!("[{}]", num_repr(4.0))),
        ("zz = 0".into(), format!("(({}) => {})(3)", n, n), num_repr(3.0)),
        ("zz = 0".into(), format!("(({}?) => {})()", n, n), "null".into()),
        ("zz = 0".into(), format!("((...{}) => {})(1)", n, n), format!("[{}]", num_repr(1.0))),
        ("zz = 0".into(), format!("{{{}: 1}}.{}", n, n), num_repr(1.0)),
        ("zz = 0".into(), format!("do {{ {} = 2; return {} }}", n, n), num_repr(2.0)),
        (format!("output {} = 7", n), format!("{}", n), seven.clone()),
    ];
    for (bind, expr, expected) in contexts {
        let mut s = Session::with_inputs(&[(n, json!(5))]);
        let b = s.run(&bind);
        ctx.count(1);
        ctx.outcome("identifier-context");
        if !b.is_ok() {
            ctx.violation(Violation {
                kind: "identifier-bind".into(),
                class: name_class(n),
                input: bind.clone(),
                expected: "binding succeeds".into(),
                observed: format!("{:?}", b),
                case: json!({"bind": bind, "expr": expr}),
            });
            continue;
        }
        let o = s.run(&expr);
        if o != Outcome::Ok(expected.clone()) {
            ctx.violation(Violation {
                kind: "identifier-reference".into(),
                class: name_class(n),
                input: format!("{} ;; {}", bind, expr),
                expected,
                observed: format!("{:?}", o),
                case: json!({"bind": bind, "expr": expr}),
            });
        }
    }
    // #name input reference
    let mut s = Session::with_inputs(&[(n, json!(5))]);
    let o = s.run(&format!("#{} + 0", n));
    ctx.count(1);
    if o != Outcome::Ok(num_repr(5.0)) {
        ctx.violation(Violation {
            kind: "identifier-input-reference".into(),
            class: name_class(n),
            input: format!("#{} + 0", n),
            expected: num_repr(5.0),
            observed: format!("{:?}", o),
            case: json!({"bind": "zz = 0", "expr": format!("#{} + 0", n)}),
        });
    }
    ctx.nontrivial(&format!("name:{}", n));
}

pub fn run(ctx: &Ctx, replay: Option<&J>) -> i32 {
    if let Some(r) = replay {
        let c = &r["case"];
        if let Some(text) = c["text"].as_str() {
            let base = c["base"].as_str().or(c["full"].as_str()).unwrap_or(text);
            let a = parse_one(text);
            let b = parse_one(base);
            println!("text: {:?}\n  -> {}\nreference: {:?}\n  -> {}", text, a.as_ref().map(expr_canon).unwrap_or_else(|e| e.clone()), base, b.as_ref().map(expr_canon).unwrap_or_else(|e| e.clone()));
            let same = matches!((&a, &b), (Ok(x), Ok(y)) if x == y);
            if !same {
                println!("VIOLATION property=C10 replay=<replayed>");
                return 1;
            }
            return 0;
        }
        let bind = c["bind"].as_str().unwrap_or("");
        let expr = c["expr"].as_str().unwrap_or("");
        let mut s = Session::new();
        println!("{} -> {:?}\n{} -> {:?}\nexpected {}", bind, s.run(bind), expr, s.run(expr), r["expected"]);
        return 1;
    }
    let thorough = !ctx.quick();
    let names_abc = ["a", "b", "c", "d", "e"];

    // ---- (a) pairs, triples, quadruples
    let plain: Vec<T> = names_abc.iter().map(|n| T::id(n)).collect();
    let plain_txt: Vec<String> = names_abc.iter().map(|n| n.to_string()).collect();
    for &o1 in &ALL_BINOPS {
        for &o2 in &ALL_BINOPS {
            let ops = [o1, o2];
            let t = climb(&plain[..3], &ops);
            check_text(ctx, "precedence-pair", &format!("{} {}", op_text(o1), op_text(o2)), &chain_text(&plain_txt[..3], &ops), &t);
            ctx.nontrivial(&format!("pair:{:?}:{:?}", o1, o2));
            ctx.outcome("pair");
        }
    }
    let triple_ops: Vec<BinaryOp> = ALL_BINOPS.to_vec();
    let mut triples = vec![];
    for &o1 in &triple_ops {
        for &o2 in &triple_ops {
            for &o3 in &triple_ops {
                triples.push([o1, o2, o3]);
            }
        }
    }
    par_for_ctx(ctx, triples.len(), |i| {
        let ops = triples[i];
        let t = climb(&plain[..4], &ops);
        check_text(ctx, "precedence-triple", &format!("{} {} {}", op_text(ops[0]), op_text(ops[1]), op_text(ops[2])), &chain_text(&plain_txt[..4], &ops), &t);
        ctx.outcome("triple");
    });
    ctx.nontrivial_many((0..triples.len() as u64).map(|i| fnv(&format!("triple{}", i))));
    let reps = [BinaryOp::NaturalAnd, BinaryOp::Via, BinaryOp::Equal, BinaryOp::Add, BinaryOp::Subtract, BinaryOp::Multiply, BinaryOp::Power, BinaryOp::Coalesce, BinaryOp::DotLess];
    let mut quads = vec![];
    for &a in &reps {
        for &b in &reps {
            for &c in &reps {
                for &d in &reps {
                    quads.push([a, b, c, d]);
                }
            }
        }
    }
    par_for_ctx(ctx, quads.len(), |i| {
        let ops = quads[i];
        let t = climb(&plain[..5], &ops);
        check_text(ctx, "precedence-quad", "quad", &chain_text(&plain_txt[..5], &ops), &t);
        ctx.outcome("quad");
    });
    // ---- (b) prefix / postfix around every binary operator
    let mut combos = vec![];
    for &op in &ALL_BINOPS {
        for p1 in PRES {
            for q1 in POSTS {
                for p2 in PRES {
                    for q2 in POSTS {
                        combos.push((op, p1, q1, p2, q2));
                    }
                }
            }
        }
    }
    let step = if thorough { 1 } else { 3 };
    let combos: Vec<_> = combos.into_iter().step_by(step).collect();
    par_for_ctx(ctx, combos.len(), |i| {
        let (op, p1, q1, p2, q2) = combos[i];
        let l = operand("a", p1, q1);
        let r = operand("b", p2, q2);
        let t = T::bin(op, l, r);
        let text = format!("{}a{} {} {}b{}", pre_text(p1), post_text(q1), op_text(op), pre_text(p2), post_text(q2));
        check_text(ctx, "prefix-postfix", &format!("{:?}/{:?} {} {:?}/{:?}", p1, q1, op_text(op), p2, q2), &text, &t);
        ctx.outcome("prefix-postfix");
    });
    ctx.nontrivial_many((0..combos.len() as u64).map(|i| fnv(&format!("combo{}", i))));
    // prefix over a binary chain: -a ^ b, not a and b, ...
    for p in PRES {
        for q in POSTS {
            for &o1 in &ALL_BINOPS {
                for &o2 in &[BinaryOp::Power, BinaryOp::Coalesce, BinaryOp::Add, BinaryOp::NaturalAnd] {
                    let ops = [o1, o2];
                    let operands = vec![operand("a", p, Post::None), operand("b", Pre::None, q), operand("c", p, q)];
                    let texts = vec![format!("{}a", pre_text(p)), format!("b{}", post_text(q)), format!("{}c{}", pre_text(p), post_text(q))];
                    let t = climb(&operands, &ops);
                    check_text(ctx, "prefix-postfix-chain", "chain", &chain_text(&texts, &ops), &t);
                }
            }
        }
    }

    // literal operands: a sign, `!` or `not` in front of a literal is the table's prefix operator, and
    // postfix operators bind to the literal first - alone and on either side of every binary operator
    {
        let lits: Vec<(&str, T, bool)> = vec![
            ("0", T::num(0.0), true),
            ("3", T::num(3.0), true),
            ("1.5", T::num(1.5), true),
            ("0x10", T::num(16.0), true),
            ("0b11", T::num(3.0), true),
            ("1e3", T::num(1000.0), true),
            (".5", T::num(0.5), true),
            ("1_000", T::num(1000.0), true),
            ("\"s\"", T::Str("s".into()), false),
            ("true", T::Bool(true), false),
            ("null", T::Null, false),
            ("#k", T::Inp("k".into()), false),
        ];
        for (text, base, numeric) in &lits {
            for p in PRES {
                for q in POSTS {
                    // `3.k` is a question of number lexing, not of the operator table
                    if *numeric && matches!(q, Post::Field) {
                        continue;
                    }
                    let t = operand_on(base.clone(), p, q);
                    let ot = format!("{}{}{}", pre_text(p), text, post_text(q));
                    check_text_literal(ctx, &format!("{:?}/{:?} on {}", p, q, text), &ot, &t);
                    ctx.outcome("prefix-postfix-literal");
                    ctx.nontrivial(&ot);
                    if thorough || matches!(q, Post::None | Post::Fact | Post::Index) {
                        for &op in &ALL_BINOPS {
                            check_text_literal(ctx, &format!("a {} {:?}/{:?} on {}", op_text(op), p, q, text), &format!("a {} {}", op_text(op), ot), &T::bin(op, T::id("a"), t.clone()));
                            check_text_literal(ctx, &format!("{:?}/{:?} on {} {} b", p, q, text, op_text(op)), &format!("{} {} b", ot, op_text(op)), &T::bin(op, t.clone(), T::id("b")));
                        }
                    }
                }
            }
        }
    }

    // un-parenthesised lambda bodies (the grammar has a separate operator rule for them): every binary
    // operator admissible there under every layout option on either side, alone, as the right operand of
    // `where` / `via`, and with a second operator after it
    {
        for &op in &ALL_BINOPS {
            if matches!(op, BinaryOp::Via | BinaryOp::Into | BinaryOp::Where) {
                continue;
            }
            let natural = matches!(op, BinaryOp::NaturalAnd | BinaryOp::NaturalOr);
            let lefts = options(if natural { Site::NatLeft } else { Site::SymLeft });
            let rights = options(if natural { Site::NatRight } else { Site::SymRight });
            let body = T::bin(op, T::id("a"), T::id("b"));
            let body3 = climb(&[T::id("a"), T::id("b"), T::id("c")], &[op, BinaryOp::NaturalOr]);
            for l in lefts {
                for r in rights {
                    let bt = format!("a{}{}{}b", l, op_text(op), r);
                    let cases: Vec<(String, T)> = vec![
                        (format!("x => {}", bt), T::lam1("x", body.clone())),
                        (format!("xs where x => {}", bt), T::bin(BinaryOp::Where, T::id("xs"), T::lam1("x", body.clone()))),
                        (format!("xs via (x, i) => {}", bt), T::bin(BinaryOp::Via, T::id("xs"), T::Lam(vec![LArg::Req("x".into()), LArg::Req("i".into())], Box::new(body.clone())))),
                        (format!("x => {} or c", bt), T::lam1("x", body3.clone())),
                        (format!("x => {}\n  or c", bt), T::lam1("x", body3.clone())),
                        (format!("x => {} // note\n  or c", bt), T::lam1("x", body3.clone())),
                    ];
                    for (text, want) in cases {
                        check_text(ctx, "lambda-body-layout", &format!("{} {:?}/{:?}", op_text(op), l, r), &text, &want);
                        ctx.outcome("lambda-body-layout");
                        ctx.nontrivial(&text);
                    }
                }
            }
        }
    }

    // ---- word and symbol spellings evaluate identically
    for (w, s) in [("and", "&&"), ("or", "||")] {
        for a in ["true", "false", "1", "null", "[true, false]", "nope", "(1 + \"a\")"] {
            // right operands include expressions whose evaluation itself fails: both spellings
            // must agree on whether they are evaluated at all
            for b in ["true", "false", "1", "null", "[false, true]", "nope", "(1 + \"a\")", "head(3)"] {
                let o1 = eval_fresh(&format!("{} {} {}", a, w, b));
                let o2 = eval_fresh(&format!("{} {} {}", a, s, b));
                ctx.count(2);
                ctx.outcome("spelling");
                if o1.cmp_key() != o2.cmp_key() {
                    ctx.violation(Violation { kind: "spelling".into(), class: w.into(), input: format!("{} {} {}", a, w, b), expected: o2.cmp_key(), observed: o1.cmp_key(), case: json!({"bind": "zz = 0", "expr": format!("{} {} {}", a, w, b)}) });
                }
            }
        }
    }
    for a in ["true", "false", "1", "null", "[true]"] {
        let o1 = eval_fresh(&format!("not {}", a));
        let o2 = eval_fresh(&format!("!{}", a));
        ctx.count(2);
        if o1.cmp_key() != o2.cmp_key() {
            ctx.violation(Violation { kind: "spelling".into(), class: "not".into(), input: format!("not {}", a), expected: o2.cmp_key(), observed: o1.cmp_key(), case: json!({"bind": "zz = 0", "expr": format!("not {}", a)}) });
        }
    }

    // ---- (d) layout
    let mut stats = GenStats::default();
    let kinds = all_kinds();
    let mut bases: Vec<T> = vec![];
    {
        let mut supply = LeafSupply::new();
        for k in &kinds {
            if k.is_expr {
                bases.push(with_leaves(k, &mut supply));
                supply = LeafSupply::new();
            }
        }
    }
    let two = if thorough { single_slot(&kinds, &kinds, &mut stats) } else { single_slot(&representative_kinds(), &representative_kinds(), &mut stats) };
    bases.extend(two);
    // literal leaves with interesting tokens
    bases.push(T::bin(BinaryOp::Add, T::num(1.5), T::str("a b")));
    bases.push(T::bin(BinaryOp::Subtract, T::id("a"), T::Neg(Box::new(T::id("b")))));
    bases.push(T::List(vec![T::str("//not a comment"), T::str(", ]")]));
    bases.push(T::Do(vec![T::Assign("p".into(), Box::new(T::id("a"))), T::bin(BinaryOp::Add, T::id("p"), T::num(1.0)), T::Assign("q".into(), Box::new(T::List(vec![T::id("p")])))], Box::new(T::id("q"))));
    bases.push(T::Assign("z".into(), Box::new(T::Lam(vec![LArg::Req("x".into())], Box::new(T::Do(vec![T::Assign("p".into(), Box::new(T::id("x")))], Box::new(T::id("p"))))))));
    par_for_ctx(ctx, bases.len(), |i| layout_checks(ctx, &bases[i], thorough));
    ctx.set("layout_bases", json!(bases.len()));
    ctx.set("generator", json!({"states": stats.states, "transitions": stats.transitions, "complete": stats.complete}));

    // ---- (e) identifiers
    let ns = names(thorough);
    par_for_ctx(ctx, ns.len(), |i| identifier_checks(ctx, &ns[i]));
    ctx.set("names", json!(ns.len()));

    ctx.sample(json!({"minimal": "a + b * c ^ d ?? e", "reference": climb(&plain[..5], &[BinaryOp::Add, BinaryOp::Multiply, BinaryOp::Power, BinaryOp::Coalesce]).full()}));
    ctx.sample(json!({"minimal": "-a! ^ not b.k", "reference": T::bin(BinaryOp::Power, operand("a", Pre::Neg, Post::Fact), operand("b", Pre::Not, Post::Field)).full()}));
    ctx.sample(json!({"layout": render(&bases[bases.len() / 2], &|x, _| 1 + x % 2).0}));
    ctx.sample(json!({"identifier": "trueish = 7 ;; if true then trueish else 0"}));
    ctx.require_outcome("pair", 676);
    ctx.require_outcome("triple", 17_576);
    ctx.require_outcome("layout-single", 1000);
    ctx.require_outcome("layout-pair", 1000);
    ctx.require_outcome("identifier-context", 10_000);
    finish(
        ctx,
        "exploration",
        "all 676 ordered pairs and 17576 triples of the 26 binary operators and 6561 quadruples over 9 level representatives, every prefix x postfix combination on both operands of every operator, each compared (minimal text and reference-parenthesised text) with a precedence-climbing reference built from the property's table; layout: every option at every layout site singly, every pair of sites, and all at once, over every node kind and every parent/child kind spine; identifiers: every reserved word x every one-character prefix/suffix plus compounds, each bound and referenced in 34 contexts; distinct = distinct operator sequences / base programs / names",
        true,
        None,
    )
}
