//! C12 — equality and ordering are coherent.
//!
//! The full pool x pool matrix of the six dot operators, the four u* built-ins, the plain
//! comparison operators on scalars and `sort` of each pair is evaluated through the evaluator;
//! the laws are then checked on every pair and (transitivity) on every triple of the matrix,
//! and every entry is compared with the harness's reference equality / ordering.

use crate::alpha::*;
use crate::common::*;
use serde_json::{Value as J, json};
use std::cmp::Ordering;

const SHARED_PRELUDE: &str = "sh0 = [null]\nsh1 = {a: 1}\nsh2 = \"s\"\nsh3 = [1]\nsh4 = [x => x]\n";

/// Values spelled with shared parts: several pool entries hold the very same heap cell at the same
/// position (an ordering or equality must not depend on such sharing).
fn shared_entries() -> Vec<(RV, &'static str)> {
    let n = RV::Num;
    let l = RV::List;
    let nul = || l(vec![RV::Null]);
    let rec = || RV::Rec(vec![("a".to_string(), n(1.0))]);
    vec![
        (l(vec![nul(), n(1.0)]), "[sh0, 1]"),
        (l(vec![nul(), n(2.0)]), "[sh0, 2]"),
        (l(vec![rec(), n(1.0)]), "[sh1, 1]"),
        (l(vec![rec(), n(2.0)]), "[sh1, 2]"),
        (l(vec![RV::s("s"), n(1.0)]), "[sh2, 1]"),
        (l(vec![RV::s("s"), n(2.0)]), "[sh2, 2]"),
        (l(vec![l(vec![n(1.0)]), n(1.0)]), "[sh3, 1]"),
        (l(vec![l(vec![n(1.0)]), n(2.0)]), "[sh3, 2]"),
        (l(vec![l(vec![nul()])]), "[[sh0]]"),
        (l(vec![nul(), nul()]), "[sh0, sh0]"),
        (RV::Rec(vec![("k".to_string(), nul())]), "{k: sh0}"),
        (RV::Rec(vec![("k".to_string(), l(vec![n(1.0)]))]), "{k: sh3}"),
    ]
}

fn pool(thorough: bool) -> Vec<RV> {
    let n = RV::Num;
    let s = RV::s;
    let l = RV::List;
    let r = |v: Vec<(&str, RV)>| RV::Rec(v.into_iter().map(|(k, v)| (k.to_string(), v)).collect());
    let mut p = vec![
        n(0.0),
        n(-0.0),
        n(1.0),
        n(-1.0),
        n(1.5),
        n(2.0),
        n(f64::INFINITY),
        n(f64::NEG_INFINITY),
        n(1e308),
        n(5e-324),
        s(""),
        s("a"),
        s("ab"),
        s("abc"),
        s("b"),
        s("B"),
        s("a b"),
        s("\u{e9}"),
        s("e\u{301}"),
        s("z"),
        s("\u{1f600}"),
        s("\u{ffff}"),
        RV::Bool(true),
        RV::Bool(false),
        RV::Null,
        l(vec![]),
        l(vec![n(1.0)]),
        l(vec![n(1.0), n(2.0)]),
        l(vec![n(1.0), n(2.0), n(3.0)]),
        l(vec![n(1.0), n(3.0)]),
        l(vec![n(2.0)]),
        l(vec![n(0.0)]),
        l(vec![n(-0.0)]),
        l(vec![s("a")]),
        l(vec![s("a"), s("b")]),
        l(vec![s("b")]),
        l(vec![n(1.0), s("a")]),
        l(vec![s("a"), n(1.0)]),
        l(vec![l(vec![])]),
        l(vec![l(vec![n(1.0)])]),
        l(vec![l(vec![n(1.0)]), n(2.0)]),
        l(vec![l(vec![n(1.0), n(2.0)])]),
        l(vec![RV::Null]),
        l(vec![RV::Bool(true)]),
        l(vec![RV::Bool(false), RV::Bool(true)]),
        r(vec![]),
        r(vec![("a", n(1.0))]),
        r(vec![("a", n(1.0)), ("b", n(2.0))]),
        r(vec![("b", n(2.0)), ("a", n(1.0))]),
        r(vec![("a", n(2.0)), ("b", n(1.0))]),
        r(vec![("a", n(1.0)), ("b", n(2.0)), ("c", n(3.0))]),
        r(vec![("a", l(vec![n(1.0)]))]),
        r(vec![("a", r(vec![("b", n(1.0))]))]),
        r(vec![("a", RV::Null)]),
        r(vec![("b", n(1.0))]),
        l(vec![r(vec![("a", n(1.0)), ("b", n(2.0))])]),
        l(vec![r(vec![("b", n(2.0)), ("a", n(1.0))])]),
    ];
    if thorough {
        p.extend([
            n(3.0),
            n(0.1),
            n(9007199254740992.0),
            n(9007199254740993.0),
            s("A"),
            s("aa"),
            s("a\u{0}"),
            s("a\n"),
            s("10"),
            s("9"),
            l(vec![n(1.0), n(2.0), n(4.0)]),
            l(vec![n(1.0), l(vec![])]),
            l(vec![s("ab")]),
            l(vec![s("a"), s("")]),
            l(vec![n(f64::INFINITY)]),
            r(vec![("", n(1.0))]),
            r(vec![("a", n(1.0)), ("c", n(2.0))]),
            r(vec![("a", s("1"))]),
            l(vec![RV::Null, RV::Null]),
            l(vec![l(vec![l(vec![])])]),
        ]);
    }
    // second, separately created copies of some values (equal content, different heap cells), and
    // values deeply nested down to a difference
    let nest = |x: RV, d: usize| -> RV {
        let mut v = x;
        for _ in 0..d {
            v = RV::List(vec![v]);
        }
        v
    };
    p.extend([
        s("a"),
        s(""),
        s("\u{e9}"),
        s("abcdefghijklmnopqrstuvwxyz"),
        s("abcdefghijklmnopqrstuvwxyz"),
        l(vec![s("a")]),
        l(vec![s("a"), s("b")]),
        r(vec![("a", n(1.0))]),
        r(vec![("k", s("a"))]),
        r(vec![("k", s("a"))]),
        n(1.5),
        nest(n(1.0), 40),
        nest(n(2.0), 40),
        nest(n(1.0), 40),
        nest(s("a"), 70),
        nest(s("b"), 70),
    ]);
    // (kept last: run() spells these with the shared variables of SHARED_PRELUDE)
    p.extend(shared_entries().into_iter().map(|(v, _)| v));
    p
}

const DOTS: [&str; 6] = [".==", ".!=", ".<", ".<=", ".>", ".>="];
const US: [&str; 4] = ["ugt", "ult", "ugte", "ulte"];

/// Observed result: Some(bool) or None for an error.
type Cell = Option<bool>;

fn as_cell(o: &Outcome) -> Result<Cell, String> {
    match o {
        Outcome::Ok(s) if s == "true" => Ok(Some(true)),
        Outcome::Ok(s) if s == "false" => Ok(Some(false)),
        Outcome::EvalError(_) => Ok(None),
        other => Err(format!("{:?}", other)),
    }
}

pub fn run(ctx: &Ctx, replay: Option<&J>) -> i32 {
    if let Some(r) = replay {
        let src = r["case"]["src"].as_str().unwrap_or("");
        let o = eval_fresh(src);
        println!("input: {}\nobserved: {:?}\nexpected: {}", src, o, r["expected"]);
        return 1;
    }
    let p = pool(!ctx.quick());
    let n = p.len();
    ctx.set("pool_size", json!(n));
    // bind the pool once per worker session: `p0 = ...; p1 = ...`
    let shared = shared_entries();
    let first_shared = n - shared.len();
    let prelude: String = SHARED_PRELUDE.to_string()
        + &p.iter().enumerate().map(|(i, v)| format!("p{} = {}\n", i, if i >= first_shared { shared[i - first_shared].1.to_string() } else { v.src() })).collect::<String>();

    // row i: all results against every j
    struct Row {
        dots: Vec<[Cell; 6]>,
        us: Vec<[Cell; 4]>,
        plain: Vec<[Option<String>; 6]>,
        sorts: Vec<Option<String>>,
        bad: Vec<String>,
    }
    let rows: Vec<Row> = par_map(&(0..n).collect::<Vec<_>>(), |&i| {
        let mut sess = Session::new();
        // every second row works on a heap that already holds tens of thousands of other values
        // (distinct short strings, small lists, records): nothing about a comparison may depend on
        // what else the heap contains or on how full an internal table is
        if i % 2 == 1 {
            let _ = sess.run("junk = [range(0, 70000) via (i => to_string(i)), range(0, 5000) via (i => [i, to_string(i)]), range(0, 5000) via (i => {k: i})]");
        }
        let o = sess.run(&prelude);
        let mut row = Row { dots: vec![], us: vec![], plain: vec![], sorts: vec![], bad: vec![] };
        if !o.is_ok() {
            row.bad.push(format!("prelude failed: {:?}", o));
            return row;
        }
        for j in 0..n {
            let mut d: [Cell; 6] = [None; 6];
            for (k, op) in DOTS.iter().enumerate() {
                match as_cell(&sess.run(&format!("p{} {} p{}", i, op, j))) {
                    Ok(c) => d[k] = c,
                    Err(e) => row.bad.push(format!("p{} {} p{}: {}", i, op, j, e)),
                }
            }
            row.dots.push(d);
            let mut u: [Cell; 4] = [None; 4];
            for (k, f) in US.iter().enumerate() {
                match as_cell(&sess.run(&format!("{}(p{}, p{})", f, i, j))) {
                    Ok(c) => u[k] = c,
                    Err(e) => row.bad.push(format!("{}(p{}, p{}): {}", f, i, j, e)),
                }
            }
            row.us.push(u);
            let mut pl: [Option<String>; 6] = Default::default();
            for (k, op) in ["==", "!=", "<", "<=", ">", ">="].iter().enumerate() {
                pl[k] = match sess.run(&format!("p{} {} p{}", i, op, j)) {
                    Outcome::Ok(s) => Some(s),
                    _ => None,
                };
            }
            row.plain.push(pl);
            row.sorts.push(match sess.run(&format!("sort([p{}, p{}])", i, j)) {
                Outcome::Ok(s) => Some(s),
                _ => None,
            });
        }
        row
    });
    ctx.count(n * n * 17);
    for row in &rows {
        for b in &row.bad {
            ctx.machinery_error(b.clone());
        }
    }
    if !ctx.machinery_errors.lock().unwrap().is_empty() {
        return finish(ctx, "exploration", "", false, None);
    }

    let spell = |i: usize| -> String { if i >= first_shared { shared[i - first_shared].1.to_string() } else { p[i].src() } };
    let v = |kind: &str, i: usize, j: usize, k: Option<usize>, exp: String, obs: String| {
        let names = match k {
            Some(k) => format!("{} ; {} ; {}", p[i].src(), p[j].src(), p[k].src()),
            None => format!("{} ; {}", p[i].src(), p[j].src()),
        };
        ctx.violation(Violation {
            kind: kind.to_string(),
            class: format!("{}~{}", p[i].type_name(), p[j].type_name()),
            input: names,
            expected: exp,
            observed: obs,
            case: json!({"src": format!("{pre}pa = {a}\npb = {b}\n[pa .== pb, pa .< pb, pa .> pb, ugte(pa, pb)]", pre = SHARED_PRELUDE, a = spell(i), b = spell(j))}),
        });
    };

    // pairwise laws + reference model
    for i in 0..n {
        for j in 0..n {
            let d = rows[i].dots[j];
            let (eq, ne, lt, le, gt, ge) = (d[0], d[1], d[2], d[3], d[4], d[5]);
            ctx.nontrivial(&format!("pair:{}:{}", i, j));
            // reference
            let req = p[i].equals(&p[j]);
            let rcmp = p[i].compare(&p[j]);
            if eq != Some(req) {
                v("equality-vs-reference", i, j, None, format!("{}", req), format!("{:?}", eq));
            }
            let want = |f: fn(Ordering) -> bool| rcmp.map(f);
            let checks: [(Cell, Cell, &str); 4] = [
                (lt, want(|o| o == Ordering::Less), ".<"),
                (le, want(|o| o != Ordering::Greater), ".<="),
                (gt, want(|o| o == Ordering::Greater), ".>"),
                (ge, want(|o| o != Ordering::Less), ".>="),
            ];
            for (got, exp, name) in checks {
                if got != exp {
                    v("ordering-vs-reference", i, j, None, format!("{} -> {:?}", name, exp), format!("{:?}", got));
                }
            }
            ctx.outcome(match rcmp {
                Some(Ordering::Less) => "less",
                Some(Ordering::Equal) => "equal",
                Some(Ordering::Greater) => "greater",
                None => "unordered",
            });
            // internal laws (independent of the reference)
            if eq.is_none() || ne.is_none() {
                v("equality-fails", i, j, None, "a boolean".into(), format!("{:?} {:?}", eq, ne));
            } else if ne != eq.map(|b| !b) {
                v("negation", i, j, None, format!(".!= is not(.==) = {:?}", eq.map(|b| !b)), format!("{:?}", ne));
            }
            if i == j && eq != Some(true) {
                v("reflexivity", i, j, None, "true".into(), format!("{:?}", eq));
            }
            if rows[j].dots[i][0] != eq {
                v("symmetry", i, j, None, format!("{:?}", eq), format!("{:?}", rows[j].dots[i][0]));
            }
            match (lt, gt, eq) {
                (Some(a), Some(b), Some(c)) => {
                    // comparable: exactly one holds, unions
                    if (a as u8 + b as u8 + c as u8) != 1 {
                        v("trichotomy", i, j, None, "exactly one of .< .== .>".into(), format!("{} {} {}", a, c, b));
                    }
                    if le != Some(a || c) || ge != Some(b || c) {
                        v("unions", i, j, None, format!(".<= {} .>= {}", a || c, b || c), format!("{:?} {:?}", le, ge));
                    }
                    // antisymmetry with the transposed entry
                    if rows[j].dots[i][4] != Some(a) || rows[j].dots[i][2] != Some(b) {
                        v("converse", i, j, None, "a .< b iff b .> a".into(), format!("{:?}", rows[j].dots[i]));
                    }
                }
                (None, None, _) => {
                    if le.is_some() || ge.is_some() {
                        v("partial-failure", i, j, None, "all four ordering operators fail together".into(), format!("{:?}", d));
                    }
                    // different or unordered types: never equal unless same type & equal
                    if p[i].type_name() != p[j].type_name() && eq != Some(false) {
                        v("cross-type-equal", i, j, None, "false".into(), format!("{:?}", eq));
                    }
                }
                _ => v("partial-failure", i, j, None, "all ordering operators succeed or fail together".into(), format!("{:?}", d)),
            }
            if p[i].type_name() != p[j].type_name() {
                if eq != Some(false) || lt.is_some() {
                    v("cross-type", i, j, None, "unequal and unordered".into(), format!("{:?}", d));
                }
            }
            // u* agree with the operators when those succeed, false otherwise
            let u = rows[i].us[j];
            let exp_u = [gt.unwrap_or(false), lt.unwrap_or(false), ge.unwrap_or(false), le.unwrap_or(false)];
            for k in 0..4 {
                if u[k] != Some(exp_u[k]) {
                    v("unchecked-builtin", i, j, None, format!("{} -> {}", US[k], exp_u[k]), format!("{:?}", u[k]));
                }
            }
            // plain operators on two non-lists equal the dot operators
            if !p[i].is_list() && !p[j].is_list() {
                for k in 0..6 {
                    let want = d[k].map(|b| b.to_string());
                    if rows[i].plain[j][k] != want {
                        v("plain-vs-dot", i, j, None, format!("{:?}", want), format!("{:?}", rows[i].plain[j][k]));
                    }
                }
            }
            // sort of the pair: ordered when comparable, a permutation always
            let a = p[i].canon();
            let b = p[j].canon();
            let fwd = format!("[{}, {}]", a, b);
            let rev = format!("[{}, {}]", b, a);
            match &rows[i].sorts[j] {
                None => v("sort-fails", i, j, None, "a list".into(), "error".into()),
                Some(sv) => match rcmp {
                    // comparable: non-decreasing, and stable when equal
                    Some(o) => {
                        let expect = if o == Ordering::Greater { &rev } else { &fwd };
                        if sv != expect {
                            v("sort-pair", i, j, None, expect.clone(), sv.clone());
                        }
                    }
                    // not mutually comparable: any permutation
                    None => {
                        if sv != &fwd && sv != &rev {
                            v("sort-pair", i, j, None, format!("{} or {}", fwd, rev), sv.clone());
                        }
                    }
                },
            }
        }
    }
    // transitivity on all triples (ordering and equality)
    let idx: Vec<usize> = (0..n).collect();
    let found: Vec<Vec<(usize, usize, usize, &'static str)>> = par_map(&idx, |&i| {
        let mut out = vec![];
        for j in 0..n {
            for k in 0..n {
                let ij = rows[i].dots[j];
                let jk = rows[j].dots[k];
                let ik = rows[i].dots[k];
                if ij[3] == Some(true) && jk[3] == Some(true) && ik[3] != Some(true) {
                    out.push((i, j, k, "transitivity-le"));
                }
                if ij[2] == Some(true) && jk[3] == Some(true) && ik[2] != Some(true) {
                    out.push((i, j, k, "transitivity-lt"));
                }
                if ij[0] == Some(true) && jk[0] == Some(true) && ik[0] != Some(true) {
                    out.push((i, j, k, "transitivity-eq"));
                }
            }
        }
        out
    });
    ctx.count(n * n * n);
    ctx.set("triples", json!(n * n * n));
    for (i, j, k, kind) in found.into_iter().flatten() {
        v(kind, i, j, Some(k), "a R b and b R c imply a R c".into(), "violated".into());
    }
    ctx.sample(json!({"pair": [p[0].src(), p[1].src()], "ops": DOTS}));
    ctx.sample(json!({"pair": [p[n - 2].src(), p[n - 1].src()], "ops": US}));
    ctx.sample(json!({"triple": [p[26].src(), p[27].src(), p[29].src()]}));
    for t in ["less", "equal", "greater", "unordered"] {
        ctx.require_outcome(t, 20);
    }
    finish(
        ctx,
        "exploration",
        "full pool x pool matrix of .== .!= .< .<= .> .>=, ugt/ult/ugte/ulte, the plain comparison operators and sort([a,b]) through the evaluator; laws on every pair, transitivity on every triple of the matrix, every entry compared with the harness's reference equality/ordering; distinct = ordered pairs",
        true,
        None,
    )
}
