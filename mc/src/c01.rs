//! C01 — no input crashes the parse / evaluate / serialise / format pipeline; error locations lie
//! inside the text they refer to.
//!
//! Every case runs in a crash-isolated worker process (`mc worker c01`) with a per-case wall
//! clock cap: a panic is caught and reported by the worker, an abort / stack overflow / hang kills
//! the worker and is attributed to the case in flight.

use crate::alpha::words;
use crate::common::*;
use crate::proc::{Worker, WorkerAnswer, run_blots, scratch_file};
use crate::tgen::*;
use crate::wasmdrv::blots_wasm;
use blots_core::environment::Environment;
use blots_core::error::RuntimeError;
use blots_core::expressions::{evaluate_pairs, pairs_to_expr, pairs_to_expr_with_comments, validate_portable_value};
use blots_core::formatter::format_expr;
use blots_core::functions::{BuiltInFunction, FunctionDef};
use blots_core::heap::Heap;
use blots_core::parser::{Rule, get_pairs};
use blots_core::values::{FunctionArity, SerializableValue, Value};
use indexmap::IndexMap;
use pest::error::InputLocation;
use serde_json::{Value as J, json};
use std::cell::RefCell;
use std::rc::Rc;

// ---------------------------------------------------------------------------------------------
// worker side

struct Report {
    problems: Vec<String>,
    tags: Vec<&'static str>,
}

impl Report {
    fn new() -> Self {
        Report { problems: vec![], tags: vec![] }
    }
    fn stage<R>(&mut self, name: &str, f: impl FnOnce() -> R) -> Option<R> {
        match catch(f) {
            Ok(r) => Some(r),
            Err(p) => {
                self.problems.push(format!("[{}] {}", name, p));
                None
            }
        }
    }
}

fn check_span(rep: &mut Report, what: &str, start: usize, end: usize, text: &str) {
    let ok = start <= end && end <= text.len() && text.is_char_boundary(start) && text.is_char_boundary(end);
    if !ok {
        rep.problems.push(format!("[{}] error location {}..{} is outside the {}-byte text it refers to (or splits a character)", what, start, end, text.len()));
    }
}

fn check_runtime_error(rep: &mut Report, e: &RuntimeError, stage: &str) {
    if let (Some(span), Some(src)) = (&e.span, &e.source) {
        check_span(rep, &format!("{} error span", stage), span.start_byte, span.end_byte, src);
        rep.tags.push("error-with-span");
    }
    // rendering the report (ariadne) must not panic either
    rep.stage(&format!("{} error display", stage), || format!("{}", e));
}

/// All the text / JSON stages for one value.
fn value_stages(rep: &mut Report, v: &Value, heap: &Rc<RefCell<Heap>>, env: &Environment) {
    rep.stage("stringify_internal", || v.stringify_internal(&heap.borrow()));
    rep.stage("stringify_external", || v.stringify_external(&heap.borrow()));
    rep.stage("stringify_for_display", || v.stringify_for_display(&heap.borrow()));
    rep.stage("display", || format!("{}", v));
    rep.stage("validate_portable_value", || validate_portable_value(v, &heap.borrow(), env).is_ok());
    let sv = rep.stage("from_value", || SerializableValue::from_value(v, &heap.borrow()));
    if let Some(Ok(sv)) = sv {
        let text = rep.stage("to_json", || serde_json::to_string(&sv.to_json()));
        if let Some(Ok(text)) = text {
            let back = rep.stage("from_json", || serde_json::from_str::<J>(&text).map(|j| SerializableValue::from_json(&j)));
            if let Some(Ok(sv2)) = back {
                rep.stage("to_value", || {
                    let mut h2 = Heap::new();
                    sv2.to_value(&mut h2).is_ok()
                });
            }
        }
    }
}

fn source_case(text: &str, inputs: &J) -> Report {
    source_case_mode(text, inputs, "all")
}

/// mode: "all", "static" (parse, AST, formatting, tokenising - no evaluation) or "eval"
fn source_case_mode(text: &str, inputs: &J, mode: &str) -> Report {
    let mut rep = Report::new();
    let do_static = mode != "eval";
    let do_eval = mode != "static";
    // ---- parse
    let parsed = rep.stage("get_pairs", || get_pairs(text).map(|p| p.count()));
    match parsed {
        None => return rep,
        Some(Err(e)) => {
            rep.tags.push("parse-error");
            match e.location {
                InputLocation::Pos(p) => check_span(&mut rep, "parse error position", p, p, text),
                InputLocation::Span((s, t)) => check_span(&mut rep, "parse error span", s, t, text),
            }
            rep.stage("parse error display", || format!("{}", e));
        }
        Some(Ok(_)) => {
            rep.tags.push("parse-ok");
            // ---- AST conversion and formatting, statement by statement
            if do_static {
            rep.stage("pairs_to_expr + format_expr", || {
                let mut problems = vec![];
                if let Ok(pairs) = get_pairs(text) {
                    for pair in pairs {
                        if pair.as_rule() != Rule::statement {
                            continue;
                        }
                        if let Some(first) = pair.into_inner().next() {
                            if first.as_rule() == Rule::comment {
                                continue;
                            }
                            let a = catch(|| pairs_to_expr(first.clone().into_inner()));
                            if let Err(p) = &a {
                                problems.push(format!("[pairs_to_expr] {}", p));
                            }
                            match catch(|| pairs_to_expr_with_comments(first.clone().into_inner())) {
                                Err(p) => problems.push(format!("[pairs_to_expr_with_comments] {}", p)),
                                Ok(Ok(expr)) => {
                                    for w in [Some(1), Some(20), None] {
                                        if let Err(p) = catch(|| format_expr(&expr, w)) {
                                            problems.push(format!("[format_expr width {:?}] {}", w, p));
                                        }
                                    }
                                }
                                Ok(Err(_)) => {}
                            }
                        }
                    }
                }
                problems
            })
            .into_iter()
            .flatten()
            .for_each(|p| rep.problems.push(p));
            }
            if !do_eval {
                rep.stage("wasm format_blots", || blots_wasm::format_blots(text, None).is_ok());
                rep.stage("wasm format_blots width 10", || blots_wasm::format_blots(text, Some(10)).is_ok());
                rep.stage("wasm tokenize", || blots_wasm::tokenize(text).is_ok());
                return rep;
            }
            // ---- evaluation, statement by statement in one session (as evaluate_source does)
            let heap = Rc::new(RefCell::new(Heap::new()));
            let env = Rc::new(Environment::new());
            let mut map: IndexMap<String, Value> = IndexMap::new();
            if let Some(o) = inputs.as_object() {
                for (k, j) in o {
                    let loaded = rep.stage("input from_json/to_value", || SerializableValue::from_json(j).to_value(&mut heap.borrow_mut()));
                    if let Some(Ok(v)) = loaded {
                        map.insert(k.clone(), v);
                    }
                }
            }
            let rec = heap.borrow_mut().insert_record(map);
            env.insert("inputs".to_string(), rec);
            let stmts: Vec<pest::iterators::Pair<Rule>> = get_pairs(text).map(|p| p.collect()).unwrap_or_default();
            for pair in stmts {
                if pair.as_rule() != Rule::statement {
                    continue;
                }
                let Some(inner) = pair.into_inner().next() else { continue };
                if inner.as_rule() == Rule::comment {
                    continue;
                }
                let res = rep.stage("evaluate_pairs", || evaluate_pairs(inner.into_inner(), Rc::clone(&heap), Rc::clone(&env), 0, text));
                match res {
                    None => break,
                    Some(Err(e)) => {
                        // (the session goes on after a failed statement, as in the REPL and in hosts that
                        // evaluate statement by statement)
                        rep.tags.push("eval-error");
                        check_runtime_error(&mut rep, &e, "evaluation");
                    }
                    Some(Ok(v)) => {
                        rep.tags.push("eval-ok");
                        value_stages(&mut rep, &v, &heap, &env);
                    }
                }
            }
            // every binding the session ended with is read back and rendered
            let names: Option<Vec<(String, Value)>> = rep.stage("read bindings", || {
                let mut v: Vec<(String, Value)> = env.iter().collect();
                v.sort_by(|a, b| a.0.cmp(&b.0));
                v
            });
            for (_, v) in names.unwrap_or_default() {
                value_stages(&mut rep, &v, &heap, &env);
            }
        }
    }
    // ---- the wasm entry points (real source, native shim)
    let utf16_len = text.encode_utf16().count();
    let wasm_inputs = json!({});
    if let Some(Ok(resp)) = rep.stage("wasm evaluate", || blots_wasm::evaluate(text, wasm_inputs.clone()).map_err(|e| e.message)) {
        if let Some(range) = resp.get("error").and_then(|e| e.get("range")) {
            let bad = |v: Option<&J>| v.and_then(|x| x.as_u64()).map(|x| x as usize > utf16_len).unwrap_or(false);
            if bad(range.get("start")) || bad(range.get("end")) || bad(range.get("pos")) {
                rep.problems.push(format!("[wasm evaluate] error range {} lies outside the text ({} UTF-16 units)", range, utf16_len));
            }
            let (s, e) = (range.get("start").and_then(|x| x.as_u64()), range.get("end").and_then(|x| x.as_u64()));
            if let (Some(s), Some(e)) = (s, e) {
                if s > e {
                    rep.problems.push(format!("[wasm evaluate] error range {} is reversed", range));
                }
            }
        }
    }
    if do_static {
        rep.stage("wasm format_blots", || blots_wasm::format_blots(text, None).is_ok());
        rep.stage("wasm format_blots width 10", || blots_wasm::format_blots(text, Some(10)).is_ok());
        rep.stage("wasm tokenize", || blots_wasm::tokenize(text).is_ok());
    }
    rep.stage("wasm evaluate_inline_expressions", || blots_wasm::evaluate_inline_expressions(json!([text]), json!({"a": {"Number": 1.0}})).is_ok());
    rep
}

fn builtin_case(name: &str, arg_sources: &[String]) -> Report {
    let mut rep = Report::new();
    let Some(f) = BuiltInFunction::from_ident(name) else {
        rep.problems.push(format!("unknown built-in {}", name));
        return rep;
    };
    let mut sess = Session::new();
    let mut args: Vec<Value> = vec![];
    for (i, src) in arg_sources.iter().enumerate() {
        let n = format!("arg{}", i);
        if !sess.run(&format!("{} = {}", n, src)).is_ok() {
            // a value that cannot be bound by assignment (built-in function values): evaluate directly
            match get_pairs(src).ok().and_then(|mut p| p.next()).and_then(|p| p.into_inner().next()) {
                Some(inner) => match evaluate_pairs(inner.into_inner(), Rc::clone(&sess.heap), Rc::clone(&sess.env), 0, src) {
                    Ok(v) => args.push(v),
                    Err(_) => {
                        rep.problems.push(format!("harness: cannot build argument {}", src));
                        return rep;
                    }
                },
                None => {
                    rep.problems.push(format!("harness: cannot parse argument {}", src));
                    return rep;
                }
            }
        } else {
            args.push(sess.env.get(&n).unwrap());
        }
    }
    let heap = Rc::clone(&sess.heap);
    let env = Rc::clone(&sess.env);
    let call_src = format!("{}({})", name, arg_sources.join(", "));
    let res = rep.stage("built-in call", || FunctionDef::BuiltIn(f).call(Value::BuiltIn(f), args.clone(), Rc::clone(&heap), Rc::clone(&env), 0, &call_src));
    match res {
        Some(Ok(v)) => {
            rep.tags.push("builtin-ok");
            value_stages(&mut rep, &v, &heap, &env);
        }
        Some(Err(e)) => {
            rep.tags.push("builtin-error");
            check_runtime_error(&mut rep, &e, "built-in");
        }
        None => {}
    }
    rep
}

/// JSON input documents: load like the CLI, then use every loaded value.
fn json_case(doc: &str) -> Report {
    let mut rep = Report::new();
    let parsed = rep.stage("serde_json::from_str", || serde_json::from_str::<J>(doc));
    let Some(Ok(j)) = parsed else {
        rep.tags.push("json-invalid");
        return rep;
    };
    rep.tags.push("json-valid");
    let inputs = if j.is_object() { j.clone() } else { json!({"value_1": j}) };
    let keys: Vec<String> = inputs.as_object().map(|o| o.keys().cloned().collect()).unwrap_or_default();
    let mut prog = String::new();
    for (i, k) in keys.iter().enumerate() {
        let access = format!("inputs[{}]", crate::c14::str_src(k));
        prog.push_str(&format!("t{i} = typeof({a})\ns{i} = to_string({a})\nu{i} = [{a}]\n", i = i, a = access));
    }
    let r1 = source_case(&prog, &inputs);
    rep.problems.extend(r1.problems);
    // functions: call them in several ways; every failure must carry a location inside its text
    for k in &keys {
        let access = format!("inputs[{}]", crate::c14::str_src(k));
        for call in ["{f}(1)", "{f}()", "{f}(1, 2)", "{f}(\"s\", [1], null)", "[1, \"a\"] via {f}", "[1] where {f}", "2 into {f}", "map([1, 2], {f})", "reduce([1], {f}, 0)"] {
            let p = call.replace("{f}", &access);
            let r = source_case(&p, &inputs);
            rep.problems.extend(r.problems.into_iter().map(|x| format!("{} (program {})", x, p)));
        }
    }
    rep
}

/// wasm `evaluate` with inputs given in the serde form of SerializableValue.
fn wasm_inputs_case(prog: &str, inputs: &J) -> Report {
    let mut rep = Report::new();
    rep.stage("wasm evaluate with inputs", || blots_wasm::evaluate(prog, inputs.clone()).is_ok());
    rep.stage("wasm evaluate_inline_expressions with inputs", || blots_wasm::evaluate_inline_expressions(json!([prog, "f(1)", "a", "f(1) + \"\u{e9}\u{e9}\u{e9}\u{e9}\"", "inputs.f(2)", "\u{1f600}", "[1] via f", "f"]), inputs.clone()).is_ok());
    rep
}

pub fn worker_case(case: &J) -> J {
    let rep = (|| match case["t"].as_str().unwrap_or("") {
        "src" => source_case_mode(case["s"].as_str().unwrap_or(""), &json!({}), case["mode"].as_str().unwrap_or("all")),
        "builtin" => {
            let args: Vec<String> = case["a"].as_array().map(|a| a.iter().filter_map(|x| x.as_str().map(|s| s.to_string())).collect()).unwrap_or_default();
            builtin_case(case["f"].as_str().unwrap_or(""), &args)
        }
        "json" => json_case(case["doc"].as_str().unwrap_or("")),
        "wasm-inputs" => wasm_inputs_case(case["prog"].as_str().unwrap_or(""), &case["inputs"]),
        _ => {
            let mut r = Report::new();
            r.problems.push("unknown case type".into());
            r
        }
    })();
    blots_core::functions::clear_function_call_stats();
    json!({"p": rep.problems, "tags": rep.tags})
}

// ---------------------------------------------------------------------------------------------
// supervisor side: case families

fn value_pool(thorough: bool) -> Vec<&'static str> {
    let mut v = vec![
        "(0/0)", "inf", "(-inf)", "0", "(-0)", "1", "(-1)", "2", "0.5", "(-2.5)", "255", "9007199254740992", "1e30", "(-1e30)", "\"\"", "\"a\"", "\"\u{e9}\u{1f600}\"", "\"a,b\"", "true", "null", "[]", "[3, 1, 2]",
        "[1, \"a\", null]", "[(0/0), 1]", "{}", "{a: 1, b: [2]}", "(x => x)", "((x, i) => i)", "((...r) => r)", "(x => nope)", "sum", "map",
    ];
    if thorough {
        v.extend([
            "3", "1e15", "1e-7", "5e-324", "1.7976931348623157e308", "(-9007199254740992)", "\"abc\"", "\" x \"", "\"1.5\"", "\"km\"", "false", "[1]", "[\"a\", \"b\"]", "[[1], [2, 3]]",
            "[1, \"a\", 0, null, (0/0), 2, 1, \"a\", 0, null, (0/0), 2, 1, \"a\", 0, null, (0/0), 2, 1, \"a\", 0, null, (0/0), 2, 1]", "{\"\": 0}", "{k: {k: {}}}", "(() => 1)", "(x => x + \"s\")",
            "((a?, b) => [a, b])", "sqrt", "(n => if n <= 0 then 0 else 1)", "\"{}\"", "\"{} {}\"", "[true, false]", "[{a: 1}, {a: 2}]", "100000",
        ]);
    }
    v
}

fn arities(f: BuiltInFunction) -> Vec<usize> {
    match f.arity() {
        FunctionArity::Exact(n) => vec![n],
        FunctionArity::Between(a, b) => (a..=b).collect(),
        FunctionArity::AtLeast(a) => (a.max(1)..=3).collect(),
    }
}

fn source_alphabet() -> Vec<char> {
    "()[]{}.,:;=>+-*/%^!<?#\"'`~_ \n\r\t\u{0}\u{feff}019eExbaifon\u{e9}\u{1f600}\u{2028}".chars().collect()
}

const TOKENS: [&str; 44] = [
    "if", "then", "else", "true", "null", "and", "or", "not", "do", "return", "output", "via", "into", "where", "+", "-", "*", "/", "^", "!", "==", ".==", "<", "??", "&&", "(", ")", "[", "]", "{", "}", ",",
    ":", "=", "=>", "...", "#", "//x", "\n", "0", "1e30", "\"s\"", "trueish", "\u{e9}",
];

fn nesting_family() -> Vec<(String, String)> {
    let mut out = vec![];
    for d in [1usize, 2, 4, 8, 16, 32, 64] {
        let rep = |open: &str, close: &str, core: &str| format!("{}{}{}", open.repeat(d), core, close.repeat(d));
        out.push((format!("parens-{}", d), rep("(", ")", "1")));
        out.push((format!("list-{}", d), rep("[", "]", "1")));
        out.push((format!("record-{}", d), rep("{k: ", "}", "1")));
        out.push((format!("call-arg-{}", d), format!("id = x => x\noutput r = {}", rep("id(", ")", "1"))));
        out.push((format!("lambda-body-{}", d), rep("x => ", "", "x")));
        out.push((format!("lambda-applied-{}", d), format!("output r = {}", rep("(x => ", ")(1)", "x"))));
        out.push((format!("conditional-{}", d), rep("if true then ", " else 0", "1")));
        out.push((format!("conditional-cond-{}", d), rep("if ", " then true else false", "true")));
        out.push((format!("do-block-{}", d), rep("do { return ", " }", "1")));
        out.push((format!("prefix-{}", d), rep("-", "", "1")));
        out.push((format!("not-{}", d), rep("not ", "", "true")));
        out.push((format!("right-nested-binary-{}", d), rep("1 + (", ")", "1")));
        out.push((format!("left-chain-{}", d), format!("1{}", " + 1".repeat(d))));
        out.push((format!("power-chain-{}", d), format!("2{}", " ^ 1".repeat(d))));
        out.push((format!("index-chain-{}", d), format!("{}{}", rep("[", "]", "1"), "[0]".repeat(d))));
        out.push((format!("field-chain-{}", d), format!("{}{}", rep("{k: ", "}", "1"), ".k".repeat(d))));
        out.push((format!("postfix-{}", d), format!("3{}", "!".repeat(d.min(4)))));
        out.push((format!("spread-{}", d), rep("[...", "]", "[1]")));
        out.push((format!("string-concat-{}", d), format!("\"a\"{}", " + \"b\"".repeat(d))));
        out.push((format!("assignment-chain-{}", d), (0..d).map(|i| format!("v{} = ", i)).collect::<String>() + "1"));
        out.push((format!("unclosed-{}", d), "(".repeat(d)));
        out.push((format!("unopened-{}", d), ")".repeat(d)));
        out.push((format!("comment-lines-{}", d), "// c\n".repeat(d)));
    }
    out
}

fn json_documents() -> Vec<String> {
    let mut docs: Vec<String> = vec![];
    let leaves = ["0", "-0.0", "1e308", "1e400", "-1e400", "5e-324", "9007199254740993", "123456789012345678901234567890", "\"\"", "\"a\"", "\"\\u0000\"", "\"\\ud83d\\ude00\"", "\"\u{e9}\"", "true", "false", "null", "[]", "{}"];
    for l in leaves {
        docs.push(l.to_string());
        docs.push(format!("[{}]", l));
        docs.push(format!("{{\"a\": {}}}", l));
        docs.push(format!("{{\"a\": [{}, {{\"b\": {}}}]}}", l, l));
        docs.push(format!("{{\"\": {}, \"a b\": {}, \"\\u00e9\": {}}}", l, l, l));
    }
    let fsrcs = [
        "x => x + 1", "(x) => x + 1", "(x, y?) => [x, y]", "(...r) => r", "() => 1", "x => nope", "x => x +", "x =>", "=> x", "x", "1 + 2", "sum", "map", "print", "time_now", "", " ", "x => x via y => y",
        "(x) => [1, 2, 3] via (y) => y * x", "x => do { return x }", "x => do {\n  y = x\n  return y.k.j\n}", "x => x.a.b", "x => x[0][1]", "x => x(1)", "x => inputs.f(x)", "(a?, b) => [a, b]", "((x) => x)",
        "x => \u{e9}", "x => \"\u{e9}\" + x", "x => \"\u{1f600}\u{1f600}\u{1f600}\u{1f600}\u{1f600}\u{1f600}\" + nope", "f = x => x", "output f = x => x", "// c", "x => x // c", "x => 1 / 0", "x => x!", "x => [x][5].k",
        "x => convert(x, \"km\", \"zz\")", "x => format(\"{} {}\", x)", "(x) => (if x then nope else nope2)", "(x, x) => x", "x => x => x",
    ];
    for s in fsrcs {
        let js = serde_json::to_string(s).unwrap();
        docs.push(format!("{{\"f\": {{\"__blots_function\": {}}}}}", js));
        docs.push(format!("{{\"f\": {{\"__blots_function\": {}, \"extra\": 1}}}}", js));
        docs.push(format!("{{\"f\": [{{\"__blots_function\": {}}}], \"g\": {{\"h\": {{\"__blots_function\": {}}}}}}}", js, js));
    }
    for v in ["1", "null", "[\"x => x\"]", "{\"__blots_function\": \"x => x\"}", "true"] {
        docs.push(format!("{{\"f\": {{\"__blots_function\": {}}}}}", v));
    }
    docs.push("not json".into());
    docs.push("{\"a\": ".into());
    docs.push("".into());
    docs
}

fn wasm_input_cases() -> Vec<(String, J)> {
    let mut out = vec![];
    // (bodies whose evaluation fails far into their own text: an error location that is relative to the
    // body must never be applied to the calling expression)
    let bodies = [
        "x + 1", "x +", "", " ", "nope", "x => ", "x // c", "\u{e9}", "do { return x }", "x.k.j", "(", "1\n2", "// only a comment",
        "x + 1 + 1 + 1 + 1 + 1 + missing_name_far_away", "[x, x, x, x, x, x, x, x][0] + \"s\"", "\"\u{e9}\u{e9}\u{e9}\u{e9}\u{e9}\u{e9}\" + x", "x * 2 + q", "do {\n  t = x\n  return t + nope_later\n}", "head(3) + x + x + x + x",
    ];
    for b in bodies {
        let lam = json!({"Lambda": {"name": null, "args": [{"Required": "x"}], "body": b, "scope": null}});
        let lam_scope = json!({"Lambda": {"name": "f", "args": [{"Optional": "x"}, {"Rest": "r"}], "body": b, "scope": {"k": {"Number": 1.0}, "g": {"BuiltIn": "nosuch"}}}});
        for prog in ["output r = inputs.f(1)", "r = [1] via inputs.f", "inputs.f"] {
            out.push((prog.to_string(), json!({"f": lam.clone()})));
            out.push((prog.to_string(), json!({"f": lam_scope.clone()})));
        }
    }
    for v in [json!({"BuiltIn": "nosuch"}), json!({"BuiltIn": "sum"}), json!({"Number": null}), json!({"List": [{"Number": 1.0}, {"String": "a"}]}), json!({"Record": {"a": {"Null": null}}}), json!("Null"), json!(5), json!({"Nope": 1})] {
        out.push(("output r = inputs.f".to_string(), json!({"f": v})));
    }
    out.push(("1".to_string(), json!([1, 2])));
    out.push(("1".to_string(), json!(null)));
    out
}

struct CaseSpec {
    /// false for evaluations of corpus deviations: a mutated real program may legitimately compute
    /// for a long time, so a time-out there is recorded but is not a verdict
    timeout_is_verdict: bool,
    family: &'static str,
    class: String,
    request: J,
    display: String,
}

fn run_cases(ctx: &Ctx, cases: &[CaseSpec]) {
    let nworkers = threads();
    let next = std::sync::atomic::AtomicUsize::new(0);
    std::thread::scope(|s| {
        for _ in 0..nworkers {
            s.spawn(|| {
                let mut w = Worker::new("c01", None);
                loop {
                    let i = next.fetch_add(1, std::sync::atomic::Ordering::Relaxed);
                    if i >= cases.len() {
                        break;
                    }
                    let c = &cases[i];
                    ctx.count(1);
                    let mut answer = w.ask_timeout(&c.request, std::time::Duration::from_secs(10));
                    if let WorkerAnswer::Died(how) = &answer {
                        if how.contains("no answer within") {
                            if !c.timeout_is_verdict {
                                ctx.outcome("eval-timeout-of-corpus-deviation-not-a-verdict");
                                continue;
                            }
                            // a loaded machine must not turn a slow case into a hang: once more, generously
                            ctx.outcome("timeout-retried");
                            answer = w.ask_timeout(&c.request, std::time::Duration::from_secs(90));
                        }
                    }
                    match answer {
                        WorkerAnswer::Ok(a) => {
                            if let Some(tags) = a["tags"].as_array() {
                                for t in tags {
                                    ctx.outcome(&format!("{}:{}", c.family, t.as_str().unwrap_or("?")));
                                }
                            }
                            let probs: Vec<String> = a["p"].as_array().map(|x| x.iter().filter_map(|s| s.as_str().map(|s| s.to_string())).collect()).unwrap_or_default();
                            ctx.outcome(if probs.is_empty() { "case-clean" } else { "case-with-problems" });
                            let mut seen = std::collections::BTreeSet::new();
                            for p in probs {
                                // one violation per distinct stage / location
                                let key: String = p.chars().take(90).collect();
                                if !seen.insert(key) {
                                    continue;
                                }
                                let kind = if p.contains("error location") || p.contains("error range") { "error-location" } else if p.starts_with("harness") { "harness" } else { "panic" };
                                if kind == "harness" {
                                    ctx.machinery_error(format!("{} ({})", p, c.display));
                                    continue;
                                }
                                ctx.violation(Violation { kind: kind.into(), class: problem_class(&p, &c.class), input: c.display.clone(), expected: "a result or a reported error, with locations inside the text".into(), observed: p, case: c.request.clone() });
                            }
                        }
                        WorkerAnswer::Died(how) => {
                            ctx.outcome("case-killed-worker");
                            ctx.violation(Violation { kind: "abort-or-hang".into(), class: c.class.clone(), input: c.display.clone(), expected: "a result or a reported error".into(), observed: how, case: c.request.clone() });
                        }
                    }
                }
            });
        }
    });
}

/// Class of a problem: the source location of a panic (file:line) or the stage of a bad location.
fn problem_class(p: &str, fallback: &str) -> String {
    if let Some(i) = p.find("panic at ") {
        let rest = &p[i + 9..];
        let loc: String = rest.chars().take_while(|c| *c != ' ').collect();
        return format!("panic:{}", loc.trim_end_matches(':'));
    }
    if let Some(i) = p.find(']') {
        return format!("{}|{}", &p[1..i], fallback);
    }
    fallback.to_string()
}

pub fn run(ctx: &Ctx, replay: Option<&J>) -> i32 {
    if let Some(r) = replay {
        let mut w = Worker::new("c01", None);
        let ans = w.ask_timeout(&r["case"], std::time::Duration::from_secs(20));
        match ans {
            WorkerAnswer::Ok(a) => {
                println!("case {}\n-> {}", r["case"], a);
                let bad = a["p"].as_array().map(|p| !p.is_empty()).unwrap_or(false);
                if bad {
                    println!("VIOLATION property=C01 replay=<replayed>");
                    return 1;
                }
                0
            }
            WorkerAnswer::Died(how) => {
                println!("case {}\n-> worker died: {}\nVIOLATION property=C01 replay=<replayed>", r["case"], how);
                1
            }
        }
    } else {
        run_all(ctx)
    }
}

fn run_all(ctx: &Ctx) -> i32 {
    let thorough = !ctx.quick();
    let mut cases: Vec<CaseSpec> = vec![];
    // ---- (a) every built-in x every argument tuple of the pool at every arity it accepts
    let pool = value_pool(thorough);
    for f in BuiltInFunction::all() {
        if matches!(f.name(), "print" | "time_now") {
            continue;
        }
        for n in arities(f) {
            // three-argument tuples: full product in the thorough tier, a rotating third argument in quick
            let tuples: Vec<Vec<&str>> = if n <= 2 || thorough {
                words(&pool, n).into_iter().filter(|w| w.len() == n).collect()
            } else {
                let mut v = vec![];
                for (i, a) in pool.iter().enumerate() {
                    for (j, b) in pool.iter().enumerate() {
                        for k in 0..4 {
                            v.push(vec![*a, *b, pool[(i * 7 + j * 3 + k * 11) % pool.len()]]);
                        }
                    }
                }
                v
            };
            for t in tuples {
                cases.push(CaseSpec {
                    timeout_is_verdict: true,
                    family: "builtin",
                    class: format!("builtin:{}", f.name()),
                    display: format!("{}({})", f.name(), t.join(", ")),
                    request: json!({"t": "builtin", "f": f.name(), "a": t}),
                });
            }
        }
    }
    ctx.set("builtin_cases", json!(cases.len()));
    // ---- (b) source texts
    let mut texts: Vec<(String, String)> = vec![];
    let alpha = source_alphabet();
    for w in words(&alpha, if thorough { 4 } else { 3 }) {
        texts.push(("chars".into(), w.into_iter().collect()));
    }
    for w in words(&TOKENS, if thorough { 4 } else { 3 }) {
        texts.push(("tokens-spaced".into(), w.join(" ")));
        if w.len() >= 2 {
            texts.push(("tokens-joined".into(), w.concat()));
        }
    }
    let mut stats = GenStats::default();
    let kinds = all_kinds();
    let reps = representative_kinds();
    let mut trees = single_slot(&kinds, &kinds, &mut stats);
    trees.extend(spines(&[reps.clone(), reps.clone(), reps.clone()], &mut stats));
    trees.extend(literal_slot(&kinds));
    for t in &trees {
        texts.push(("tree".into(), t.full()));
    }
    // corpus and its token-level deviations
    let mut heavy: Vec<(String, String)> = vec![];
    for (name, text) in crate::c07::corpus() {
        // benchmark programs that legitimately compute for seconds are run once through the CLI
        // (below) and get no deviations: a per-case time cap could not tell them from a hang
        // (fastest of three probes, so that a loaded machine does not shrink the family)
        let mut best = std::time::Duration::from_secs(3600);
        let mut timed_out = false;
        for _ in 0..3 {
            let t0 = std::time::Instant::now();
            let probe = run_blots(&[text.clone()], None, None);
            timed_out |= probe.timed_out;
            best = best.min(t0.elapsed());
            if best < std::time::Duration::from_millis(150) || best > std::time::Duration::from_millis(1500) || timed_out {
                break;
            }
        }
        if best > std::time::Duration::from_millis(150) || timed_out {
            heavy.push((name.clone(), text.clone()));
            continue;
        }
        texts.push(("corpus".into(), text.clone()));
        let toks = split_tokens(&text);
        let step = if thorough { 1 } else { 7 };
        for i in (0..toks.len()).step_by(step) {
            // deletion
            let mut v = toks.clone();
            v.remove(i);
            texts.push((format!("corpus-deletion:{}", name), v.concat()));
            // replacement / insertion by every token of the alphabet (a rotating subset in quick)
            for (ti, tok) in TOKENS.iter().enumerate() {
                if thorough || (ti + i) % 13 == 0 {
                    let mut r = toks.clone();
                    r[i] = tok.to_string();
                    texts.push((format!("corpus-replacement:{}", name), r.concat()));
                    let mut ins = toks.clone();
                    ins.insert(i, format!("{} ", tok));
                    texts.push((format!("corpus-insertion:{}", name), ins.concat()));
                }
            }
        }
    }
    for (name, text) in nesting_family() {
        texts.push((format!("nesting:{}", name), text));
    }
    // captured strings of every shape (quotes of both kinds, non-ASCII, backslash, line break): the
    // function is rendered, validated and serialised by the value stages
    {
        let alpha = ['a', '\u{e9}', '\u{1f600}', '\'', '"', '\\', '\n'];
        for w in words(&alpha, 3).into_iter().filter(|w| !w.is_empty()) {
            let st: String = w.into_iter().collect();
            let e = crate::c14::str_src(&st);
            texts.push(("captured-strings".into(), format!("q = {}\nf = x => [x, q]\nr = {{[q]: [q]}}\ng = () => r\nto_string(f) + to_string(g)", e)));
        }
    }
    // long non-ASCII values wherever a value can end up inside a message (a message that quotes, shortens
    // or underlines such a value must do so on character boundaries): every phase of 2-, 3- and 4-byte
    // characters relative to any byte offset, in every failing construct and as argument of every built-in
    {
        let mut vals: Vec<String> = vec![];
        for ch in ['\u{e9}', '\u{65e5}', '\u{1f600}', '\u{301}'] {
            for k in 0..4usize {
                vals.push(format!("\"{}{}\"", "a".repeat(k), std::iter::repeat(ch).take(if thorough { 90 } else { 45 }).collect::<String>()));
            }
        }
        let constructs = [
            "S(1)", "[1, 2] via S", "7 into S", "[1] where S", "names = [S]\nnames(0)", "7 into {name: S}", "[1] via [x => x, S]", "S + 1", "1 - S", "-S", "S!", "not S", "if S then 1 else 2", "S.k.j", "S[S]",
            "{[S]: 1}(S)", "[S, S](S)", "1 + + S", "S S", "S = 1", "f = (S) => 1", "{S: 1}", "#S", "S via S", "x = S\nx = 2", "(a => a + 1)(S)", "[S] + [1]", "S < 1", "S && true", "do {\n  return S(S)\n}",
            "convert(1, S, \"m\")", "convert(1, \"m\", S)", "format(S, 1, 2)", "to_number(S)", "range(S)", "slice(S, 1, 200)", "slice(S, 3, 2)", "S[200]", "split(S, 5)", "replace(S, 1, 2)",
        ];
        for v in &vals {
            for c in constructs {
                texts.push(("long-values".into(), c.replace('S', v)));
            }
        }
        let names: Vec<&'static str> = BuiltInFunction::all().iter().map(|f| f.name()).collect();
        for v in vals.iter().step_by(if thorough { 1 } else { 3 }) {
            for f in &names {
                if *f == "print" || *f == "time_now" {
                    continue;
                }
                texts.push(("long-values".into(), format!("{}({})", f, v)));
                texts.push(("long-values".into(), format!("{}(1, {})", f, v)));
                texts.push(("long-values".into(), format!("{}({}, {})", f, v, v)));
            }
        }
    }
    // sessions that go on after a failed statement: a statement binds a freshly allocated value in a
    // nested assignment and then fails; later statements allocate, then the binding is read
    {
        let failing = [
            "t = sum(xs = [1, 2, \"3\"])", "[label = \"abc\" + \"d\", 1 + label]", "r = {k: (m = {a: [1]}), z: nope}", "q = (g = x => [x]) + 1", "s = (u = \"x\" + \"y\") - 1", "w = [v1 = [1], v2 = {b: v1}, v3 = nope]",
            "do {\n  return (z = [9]) + nope\n}", "h = (k = [1, 2] via (x => [x])) into nope",
        ];
        let fillers = ["", "pad = [1, 2, 3]", "pad = \"pp\" + \"qq\"\npad2 = {a: 1}", "pad = x => x\npad3 = [[1]]"];
        let reads = ["[xs, label, m, u, v1, v2, z, k]", "xs", "label + \"!\"", "m.a[0]", "g(1)", "u", "[v1, v2]", "z[0]", "k[1]", "to_string([xs, m])"];
        for f in failing {
            for fill in fillers {
                for r in reads {
                    texts.push(("session-after-failure".into(), format!("{}\n{}\n{}\n{}", f, fill, r, r)));
                }
            }
        }
    }
    // assignments written inside function bodies: every parameter shape x body shape x (captures or
    // not) x way of reaching the call (immediate, stored, returned, named, as a callback)
    {
        let params = [("()", "()"), ("x", "(1)"), ("(x, y?)", "(1)"), ("(...r)", "(1)")];
        let bodies = ["(b = a)", "(b = 1)", "do {\n  b = a\n  return b\n}", "[b = a, b]", "if (b = a) > 0 then b else 0", "(a = 2)", "(inputs = a)"];
        for pre in ["a = 1\n", ""] {
            for (p, call) in params {
                for b in bodies {
                    let lam = format!("{} => {}", p, b);
                    texts.push(("extras".into(), format!("{}({}){}", pre, lam, call)));
                    texts.push(("extras".into(), format!("{}fs = [{}]\nfs[0]{}\nfs[0]{}", pre, lam, call, call)));
                    texts.push(("extras".into(), format!("{}g = k => {}\ng(1){}", pre, lam, call)));
                    texts.push(("extras".into(), format!("{}f = {}\nf{}\nf{}", pre, lam, call, call)));
                    texts.push(("extras".into(), format!("{}[1, 2] via ({})", pre, lam)));
                    texts.push(("extras".into(), format!("{}r = {{m: {}}}\nr.m{}", pre, lam, call)));
                }
            }
        }
    }
    // functions with the same parameters and body whose captured name sets differ (every pair of subsets
    // of three names, bound by a do-block or by a factory parameter) under every comparing operation
    {
        let names = ["a", "b", "c"];
        let subsets: Vec<Vec<&str>> = (0..8u32).map(|m| names.iter().enumerate().filter(|(i, _)| m & (1 << i) != 0).map(|(_, n)| *n).collect()).collect();
        let mk = |fname: &str, sub: &Vec<&str>, val: usize| -> String {
            let binds: String = sub.iter().map(|n| format!("  {} = {}\n", n, val)).collect();
            format!("{} = do {{\n{}  return x => [a, b, c, x]\n}}", fname, binds)
        };
        let ops = ["f == g", "f != g", "f .== g", "includes([f], g)", "unique([f, g, f])", "sort([g, f])", "[f] == [g]", "{k: f} == {k: g}", "count_by([f, g], h => to_string(h == f))"];
        for (i, s1) in subsets.iter().enumerate() {
            for (j, s2) in subsets.iter().enumerate() {
                for same_values in [true, false] {
                    let defs = format!("{}\n{}", mk("f", s1, 1), mk("g", s2, if same_values { 1 } else { 2 }));
                    if thorough || (i * 8 + j) % 3 == 0 || s1.len() == s2.len() {
                        texts.push(("extras".into(), format!("{}\n{}", defs, ops.join("\n"))));
                    }
                }
            }
        }
        texts.push(("extras".into(), "mk1 = a => (x => [a, b, x])\nmk2 = b => (x => [a, b, x])\nf = mk1(1)\ng = mk2(1)\nf == g\nunique([f, g])\nincludes([g], f)".to_string()));
    }
    // loops whose length comes from the input
    for t in ["1e15!", "9007199254740992!", "170!", "171!", "[1e15]!", "range(1e15)", "range(0, 4294967296)", "round(1, 1e15)", "round(1e300, 400)", "random(1e30)", "chunk([1], 1e30)", "slice([1], 0, 1e30)", "[1, 2][1e30]", "\"ab\"[(-1e30)]", "2 ^ 1e30", "1e308 * 10", "0 / 0", "format(\"{}{}{}\", 1)", "format(\"{\", 1)", "format(\"{0}{9}\", 1)", "split(\"abc\", \"\")", "replace(\"aaa\", \"\", \"b\")", "to_number(\"1e999\")", "to_number(\" 1\")", "convert(1, \"\", \"\")"] {
        texts.push(("extras".into(), t.to_string()));
    }
    {
        let mut seen = std::collections::HashSet::new();
        texts.retain(|(_, t)| seen.insert(t.clone()));
    }
    ctx.set("source_texts", json!(texts.len()));
    for (fam, t) in &texts {
        let family: &'static str = if fam == "extras" { "extras" } else if fam == "long-values" { "long-values" } else if fam == "session-after-failure" { "session" } else if fam == "captured-strings" { "captured" } else if fam.starts_with("corpus") { "corpus" } else if fam.starts_with("nesting") { "nesting" } else if fam.starts_with("tokens") { "tokens" } else if fam == "tree" { "tree" } else { "chars" };
        if family == "corpus" {
            cases.push(CaseSpec { timeout_is_verdict: true, family, class: fam.clone(), display: t.clone(), request: json!({"t": "src", "s": t, "mode": "static"}) });
            cases.push(CaseSpec { timeout_is_verdict: false, family, class: fam.clone(), display: t.clone(), request: json!({"t": "src", "s": t, "mode": "eval"}) });
        } else {
            cases.push(CaseSpec { timeout_is_verdict: true, family, class: fam.clone(), display: t.clone(), request: json!({"t": "src", "s": t}) });
        }
    }
    // ---- (d) JSON inputs
    for d in json_documents() {
        cases.push(CaseSpec { timeout_is_verdict: true, family: "json", class: "json-input".into(), display: d.clone(), request: json!({"t": "json", "doc": d}) });
    }
    for (prog, inputs) in wasm_input_cases() {
        cases.push(CaseSpec { timeout_is_verdict: true, family: "wasm-inputs", class: "wasm-inputs".into(), display: format!("{} with inputs {}", prog, inputs), request: json!({"t": "wasm-inputs", "prog": prog, "inputs": inputs}) });
    }
    ctx.set("cases", json!(cases.len()));
    ctx.nontrivial_many(cases.iter().map(|c| fnv(&c.request.to_string())));
    run_cases(ctx, &cases);

    // ---- process level: the nesting family, JSON documents and every in-process crasher through the real CLI
    let mut cli_jobs: Vec<(String, Vec<String>, Option<String>)> = vec![];
    for (name, text) in nesting_family() {
        let f = scratch_file("nest");
        let _ = std::fs::write(&f, &text);
        cli_jobs.push((format!("file:{}", name), vec![f.clone()], None));
        cli_jobs.push((format!("inline:{}", name), vec![text.clone()], None));
        cli_jobs.push((format!("stdin-e:{}", name), vec!["-e".into()], Some(text.clone())));
        let o = scratch_file("nest-out");
        cli_jobs.push((format!("format:{}", name), vec!["--format".into(), f, o], None));
    }
    for d in json_documents() {
        cli_jobs.push((format!("json-flag:{}", truncate(&d, 60)), vec!["output t = typeof(inputs)\noutput k = keys(inputs)".into(), "-i".into(), d.clone()], None));
        cli_jobs.push((format!("json-stdin:{}", truncate(&d, 60)), vec!["output a = inputs".into()], Some(d.clone())));
        if d.contains("__blots_function") {
            cli_jobs.push((format!("json-call:{}", truncate(&d, 60)), vec!["output r = inputs.f(1)".into(), "-i".into(), d.clone()], None));
        }
    }
    for (name, text) in &heavy {
        cli_jobs.push((format!("heavy-corpus:{}", name), vec![text.clone()], None));
    }
    ctx.set("heavy_corpus_files_cli_only", json!(heavy.iter().map(|h| h.0.clone()).collect::<Vec<_>>()));
    for v in ctx.violations.lock().unwrap().iter() {
        if let Some(s) = v.case.get("s").and_then(|s| s.as_str()) {
            cli_jobs.push((format!("crasher:{}", truncate(s, 60)), vec![s.to_string()], None));
        }
    }
    let results = par_map(&cli_jobs, |(_, args, stdin)| {
        let r = run_blots(args, stdin.as_ref().map(|s| s.as_bytes()), Some(8 << 20));
        if r.timed_out {
            // a loaded machine must not turn a slow run into a hang: once more, generously
            return crate::proc::run_cmd(&crate::proc::blots_bin(), args, stdin.as_ref().map(|s| s.as_bytes()), Some(8 << 20), std::time::Duration::from_secs(180));
        }
        r
    });
    for ((name, args, _), r) in cli_jobs.iter().zip(results.iter()) {
        ctx.count(1);
        ctx.outcome(if r.code == Some(0) { "cli-exit-0" } else { "cli-exit-nonzero" });
        if r.crashed() {
            ctx.violation(Violation { kind: "cli-crash".into(), class: name.split(':').next().unwrap_or("cli").to_string(), input: format!("blots {}", truncate(&args.join(" "), 300)), expected: "exit 0 or 1".into(), observed: r.describe(), case: json!({"t": "src", "s": args.last().cloned().unwrap_or_default()}) });
        }
    }
    crate::proc::cleanup_scratch();

    ctx.set("generator", json!({"states": stats.states, "transitions": stats.transitions, "complete_trees": stats.complete}));
    ctx.set("value_pool", json!(pool));
    for c in cases.iter().step_by(cases.len() / 8 + 1) {
        ctx.sample(json!({"family": c.family, "case": truncate(&c.display, 160)}));
    }
    for t in ["builtin:builtin-ok", "builtin:builtin-error", "chars:parse-error", "chars:parse-ok", "tokens:eval-ok", "tokens:eval-error", "tree:eval-error", "corpus:eval-ok", "nesting:parse-ok", "json:json-valid"] {
        ctx.require_outcome(t, 5);
    }
    ctx.require_outcome("case-clean", 1000);
    ctx.assume("library stages run on a 1 GiB stack inside the worker (like the CLI's interpreter thread); the CLI runs under RLIMIT_STACK = 8 MiB; resource exhaustion is excluded by construction (no pool number lies in (10^6, 2^32])");
    finish(
        ctx,
        "exploration",
        "every built-in x every argument tuple of the boundary pool at every arity it accepts (var-args at 1..3); source texts: every string of length <= 3/4 over a 48-character alphabet, every token string of length <= 3/4 over a 44-token alphabet (spaced and joined), every tree of the parent x child and depth-3 representative families, the corpus with every single-token deletion / replacement / insertion, the nesting family (23 constructs at depth 1..64), long non-ASCII values in failing constructs and as arguments of every built-in, sessions that go on after a failed statement, assignments inside function bodies (parameter shape x body x capture x route to the call), functions with equal bodies and different captured name sets under every comparing operation; JSON input documents incl. function objects with valid, truncated, non-lambda and non-string sources; serde-form wasm inputs with unparsable lambda bodies; every case through parse, AST conversion (with and without comments), evaluation in a session, value rendering / validation / JSON round trip, formatting at three widths, the four wasm entry points (native shim), in a crash-isolated worker with a 10 s cap; nesting family, JSON documents and all in-process crashers also through the real CLI (file, inline, -e, --format, -i, stdin); oracle: no panic / abort / hang, error spans inside the text they carry; distinct = distinct case requests",
        true,
        None,
    )
}

/// Split a source text into tokens (maximal runs of word characters, single other characters,
/// whitespace runs) such that concatenation gives the text back.
fn split_tokens(text: &str) -> Vec<String> {
    let mut out: Vec<String> = vec![];
    let mut cur = String::new();
    let mut cur_kind = 0u8;
    for c in text.chars() {
        let kind = if c.is_alphanumeric() || c == '_' { 1 } else if c == ' ' || c == '\t' { 2 } else { 3 };
        if kind == 3 || kind != cur_kind {
            if !cur.is_empty() {
                out.push(std::mem::take(&mut cur));
            }
        }
        cur.push(c);
        cur_kind = kind;
        if kind == 3 {
            out.push(std::mem::take(&mut cur));
            cur_kind = 0;
        }
    }
    if !cur.is_empty() {
        out.push(cur);
    }
    out
}
