use crate::common::Ctx;
pub fn run(_ctx: &Ctx, _replay: Option<&serde_json::Value>) -> i32 {
    eprintln!("not implemented");
    2
}
pub fn worker_case(_case: &serde_json::Value) -> serde_json::Value {
    serde_json::json!({})
}
