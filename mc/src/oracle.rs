//! python exact-rational oracle bridge (filled in later)
