//! Bridge to the exact-rational Python oracle (/verif/lib/oracle.py).
#![allow(dead_code)]

use std::io::{BufRead, BufReader, Write};
use std::process::{Command, Stdio};

/// Send `requests` (one line each, no newlines inside) to oracle processes and return one answer
/// per request, in order. Runs up to `crate::common::threads()` interpreters in parallel.
pub fn ask(requests: &[String]) -> Result<Vec<String>, String> {
    if requests.is_empty() {
        return Ok(vec![]);
    }
    let script = format!("{}/lib/oracle.py", std::env::var("VERIF_DIR").unwrap_or_else(|_| "/verif".into()));
    let n = crate::common::threads().min(requests.len().div_ceil(2000)).max(1);
    let chunk = requests.len().div_ceil(n);
    let chunks: Vec<&[String]> = requests.chunks(chunk).collect();
    let results: Vec<Result<Vec<String>, String>> = std::thread::scope(|s| {
        let handles: Vec<_> = chunks
            .iter()
            .map(|c| {
                let script = script.clone();
                s.spawn(move || -> Result<Vec<String>, String> {
                    let mut child = Command::new("python3")
                        .arg(&script)
                        .stdin(Stdio::piped())
                        .stdout(Stdio::piped())
                        .stderr(Stdio::inherit())
                        .spawn()
                        .map_err(|e| format!("cannot start python3: {}", e))?;
                    let mut stdin = child.stdin.take().unwrap();
                    let stdout = child.stdout.take().unwrap();
                    let payload: String = c.iter().map(|l| format!("{}\n", l)).collect();
                    let writer = std::thread::spawn(move || {
                        let _ = stdin.write_all(payload.as_bytes());
                    });
                    let mut out = vec![];
                    for line in BufReader::new(stdout).lines() {
                        out.push(line.map_err(|e| e.to_string())?);
                    }
                    let _ = writer.join();
                    let _ = child.wait();
                    if out.len() != c.len() {
                        return Err(format!("oracle answered {} of {} requests", out.len(), c.len()));
                    }
                    Ok(out)
                })
            })
            .collect();
        handles.into_iter().map(|h| h.join().unwrap_or_else(|_| Err("oracle thread panicked".into()))).collect()
    });
    let mut all = vec![];
    for r in results {
        all.extend(r?);
    }
    Ok(all)
}
