//! Shared plumbing: context, violations, known findings, evidence, parallel map, panic capture,
//! sessions over the real evaluator and canonical value rendering.
#![allow(dead_code)]

use blots_core::environment::Environment;
use blots_core::expressions::{evaluate_pairs, validate_portable_value};
use blots_core::heap::{Heap, HeapPointer, HeapValue};
use blots_core::parser::{Rule, get_pairs};
use blots_core::values::{SerializableValue, Value};
use indexmap::IndexMap;
use serde_json::{Value as J, json};
use std::cell::RefCell;
use std::collections::{BTreeMap, BTreeSet};
use std::panic::{AssertUnwindSafe, catch_unwind};
use std::rc::Rc;
use std::sync::Mutex;
use std::sync::atomic::{AtomicUsize, Ordering};
use std::time::Instant;

pub const VERIF: &str = "/verif";

#[derive(Clone, Copy, PartialEq, Eq, Debug)]
pub enum Tier {
    Quick,
    Thorough,
}

impl Tier {
    pub fn name(&self) -> &'static str {
        match self {
            Tier::Quick => "quick",
            Tier::Thorough => "thorough",
        }
    }
    pub fn pick<T>(&self, quick: T, thorough: T) -> T {
        match self {
            Tier::Quick => quick,
            Tier::Thorough => thorough,
        }
    }
}

/// One failing case.
#[derive(Clone, Debug)]
pub struct Violation {
    /// short tag of the oracle clause that failed
    pub kind: String,
    /// syntactic class of the input, computed by the harness without running Blots
    pub class: String,
    /// the failing input, as a string that `mc replay` can re-run
    pub input: String,
    pub expected: String,
    pub observed: String,
    /// enough to replay: sub-check name and a JSON case
    pub case: J,
}

#[derive(Clone, Debug)]
pub struct KnownEntry {
    pub id: String,
    pub property: String,
    pub kind: String,
    /// exact inputs (any of them), or empty when matching by class
    pub exact: Vec<String>,
    /// class names (any of them), or empty when matching by exact input
    pub classes: Vec<String>,
    pub what: String,
}

pub struct Ctx {
    pub prop: String,
    pub tier: Tier,
    pub seed: u64,
    pub start: Instant,
    pub known: Vec<KnownEntry>,
    pub violations: Mutex<Vec<Violation>>,
    pub known_hits: Mutex<BTreeMap<String, (usize, String)>>,
    pub evaluations: AtomicUsize,
    pub nontrivial_shards: Vec<Mutex<std::collections::HashSet<u64>>>,
    pub samples: Mutex<Vec<J>>,
    pub outcome_shards: Vec<Mutex<BTreeMap<String, usize>>>,
    pub extra: Mutex<serde_json::Map<String, J>>,
    pub assumptions: Mutex<Vec<String>>,
    pub caps: Mutex<Vec<String>>,
    pub machinery_errors: Mutex<Vec<String>>,
    pub replay_mode: bool,
}

pub const SHARDS: usize = 64;
pub static IN_CHILD: std::sync::atomic::AtomicBool = std::sync::atomic::AtomicBool::new(false);

thread_local! {
    static SHARD: usize = {
        static NEXT: AtomicUsize = AtomicUsize::new(0);
        NEXT.fetch_add(1, Ordering::Relaxed) % SHARDS
    };
}

pub fn shard() -> usize {
    SHARD.with(|s| *s)
}

pub fn fnv(s: &str) -> u64 {
    let mut h: u64 = 0xcbf29ce484222325;
    for b in s.as_bytes() {
        h ^= *b as u64;
        h = h.wrapping_mul(0x100000001b3);
    }
    h
}

impl Ctx {
    pub fn new(prop: &str, tier: Tier, seed: u64) -> Self {
        let known = load_known(prop);
        Ctx {
            prop: prop.to_string(),
            tier,
            seed,
            start: Instant::now(),
            known,
            violations: Mutex::new(vec![]),
            known_hits: Mutex::new(BTreeMap::new()),
            evaluations: AtomicUsize::new(0),
            nontrivial_shards: (0..SHARDS).map(|_| Mutex::new(std::collections::HashSet::new())).collect(),
            samples: Mutex::new(vec![]),
            outcome_shards: (0..SHARDS).map(|_| Mutex::new(BTreeMap::new())).collect(),
            extra: Mutex::new(serde_json::Map::new()),
            assumptions: Mutex::new(vec![]),
            caps: Mutex::new(vec![]),
            machinery_errors: Mutex::new(vec![]),
            replay_mode: false,
        }
    }

    pub fn quick(&self) -> bool {
        self.tier == Tier::Quick
    }

    pub fn count(&self, n: usize) {
        self.evaluations.fetch_add(n, Ordering::Relaxed);
    }

    /// Record a distinct non-trivial case by its canonical key.
    pub fn nontrivial(&self, key: &str) {
        let h = fnv(key);
        // sharded by key so that the same key always lands in the same set
        self.nontrivial_shards[(h % SHARDS as u64) as usize].lock().unwrap().insert(h);
    }

    pub fn nontrivial_many(&self, keys: impl IntoIterator<Item = u64>) {
        for k in keys {
            self.nontrivial_shards[(k % SHARDS as u64) as usize].lock().unwrap().insert(k);
        }
    }

    pub fn nontrivial_len(&self) -> usize {
        self.nontrivial_shards.iter().map(|s| s.lock().unwrap().len()).sum()
    }

    pub fn outcome(&self, tag: &str) {
        self.outcome_n(tag, 1);
    }

    pub fn outcome_n(&self, tag: &str, n: usize) {
        let mut g = self.outcome_shards[shard()].lock().unwrap();
        match g.get_mut(tag) {
            Some(v) => *v += n,
            None => {
                g.insert(tag.to_string(), n);
            }
        }
    }

    pub fn outcome_count(&self, tag: &str) -> usize {
        self.outcome_shards.iter().map(|s| s.lock().unwrap().get(tag).copied().unwrap_or(0)).sum()
    }

    pub fn outcomes_merged(&self) -> BTreeMap<String, usize> {
        let mut m = BTreeMap::new();
        for s in &self.outcome_shards {
            for (k, v) in s.lock().unwrap().iter() {
                *m.entry(k.clone()).or_insert(0) += v;
            }
        }
        m
    }

    pub fn sample(&self, s: J) {
        let mut g = self.samples.lock().unwrap();
        if g.len() < 12 {
            g.push(s);
        }
    }

    pub fn set(&self, key: &str, v: J) {
        self.extra.lock().unwrap().insert(key.to_string(), v);
    }

    pub fn add(&self, key: &str, n: u64) {
        let mut g = self.extra.lock().unwrap();
        let cur = g.get(key).and_then(|v| v.as_u64()).unwrap_or(0);
        g.insert(key.to_string(), json!(cur + n));
    }

    pub fn assume(&self, s: &str) {
        self.assumptions.lock().unwrap().push(s.to_string());
    }

    pub fn cap(&self, s: &str) {
        self.caps.lock().unwrap().push(s.to_string());
    }

    pub fn machinery_error(&self, s: String) {
        let mut g = self.machinery_errors.lock().unwrap();
        if g.len() < 5 && !IN_CHILD.load(Ordering::Relaxed) {
            eprintln!("MACHINERY ERROR: {}", truncate(&s, 400));
        }
        g.push(truncate(&s, 400));
    }

    /// Vacuity guard: a tag that must have been observed at least `min` times.
    pub fn require_outcome(&self, tag: &str, min: usize) {
        let n = self.outcome_count(tag);
        if n < min {
            self.machinery_error(format!(
                "vacuity guard: outcome '{}' observed {} times, expected at least {}",
                tag, n, min
            ));
        }
    }

    pub fn violation(&self, v: Violation) {
        // known finding?
        for e in &self.known {
            if e.kind == v.kind
                && (e.exact.iter().any(|x| *x == v.input) || e.classes.iter().any(|c| *c == v.class))
            {
                let mut g = self.known_hits.lock().unwrap();
                let ent = g.entry(e.id.clone()).or_insert((0, v.input.clone()));
                ent.0 += 1;
                return;
            }
        }
        self.violations.lock().unwrap().push(v);
    }

    /// Forget everything recorded so far (used by forked workers, which report only their own share).
    pub fn clear_accumulators(&self) {
        self.violations.lock().unwrap().clear();
        self.known_hits.lock().unwrap().clear();
        self.evaluations.store(0, Ordering::Relaxed);
        for s in &self.nontrivial_shards {
            s.lock().unwrap().clear();
        }
        for s in &self.outcome_shards {
            s.lock().unwrap().clear();
        }
        self.samples.lock().unwrap().clear();
        self.extra.lock().unwrap().clear();
        self.machinery_errors.lock().unwrap().clear();
        self.caps.lock().unwrap().clear();
    }

    pub fn export_delta(&self) -> String {
        let viols: Vec<J> = self
            .violations
            .lock()
            .unwrap()
            .iter()
            .map(|v| json!({"kind": v.kind, "class": v.class, "input": v.input, "expected": v.expected, "observed": v.observed, "case": v.case}))
            .collect();
        let hits: Vec<J> = self.known_hits.lock().unwrap().iter().map(|(k, v)| json!([k, v.0, v.1])).collect();
        let mut nt: Vec<u64> = vec![];
        for s in &self.nontrivial_shards {
            nt.extend(s.lock().unwrap().iter().copied());
        }
        json!({
            "violations": viols,
            "known_hits": hits,
            "evaluations": self.evaluations.load(Ordering::Relaxed),
            "nontrivial": nt,
            "outcomes": self.outcomes_merged(),
            "samples": self.samples.lock().unwrap().clone(),
            "extra_add": J::Object(self.extra.lock().unwrap().clone()),
            "machinery_errors": self.machinery_errors.lock().unwrap().clone(),
            "caps": self.caps.lock().unwrap().clone(),
        })
        .to_string()
    }

    pub fn merge_delta(&self, text: &str) -> bool {
        let Ok(j) = serde_json::from_str::<J>(text) else { return false };
        let s = |v: &J| v.as_str().unwrap_or("").to_string();
        if let Some(a) = j["violations"].as_array() {
            let mut g = self.violations.lock().unwrap();
            for v in a {
                g.push(Violation { kind: s(&v["kind"]), class: s(&v["class"]), input: s(&v["input"]), expected: s(&v["expected"]), observed: s(&v["observed"]), case: v["case"].clone() });
            }
        }
        if let Some(a) = j["known_hits"].as_array() {
            let mut g = self.known_hits.lock().unwrap();
            for h in a {
                let e = g.entry(s(&h[0])).or_insert((0, s(&h[2])));
                e.0 += h[1].as_u64().unwrap_or(0) as usize;
            }
        }
        self.count(j["evaluations"].as_u64().unwrap_or(0) as usize);
        if let Some(a) = j["nontrivial"].as_array() {
            self.nontrivial_many(a.iter().filter_map(|x| x.as_u64()));
        }
        if let Some(o) = j["outcomes"].as_object() {
            for (k, v) in o {
                self.outcome_n(k, v.as_u64().unwrap_or(0) as usize);
            }
        }
        if let Some(a) = j["samples"].as_array() {
            for x in a {
                self.sample(x.clone());
            }
        }
        if let Some(o) = j["extra_add"].as_object() {
            for (k, v) in o {
                match v.as_u64() {
                    Some(n) => self.add(k, n),
                    None => self.set(k, v.clone()),
                }
            }
        }
        if let Some(a) = j["machinery_errors"].as_array() {
            for x in a {
                self.machinery_error(s(x));
            }
        }
        if let Some(a) = j["caps"].as_array() {
            for x in a {
                self.caps.lock().unwrap().push(s(x));
            }
        }
        true
    }

    pub fn violation_count(&self) -> usize {
        self.violations.lock().unwrap().len()
    }

    pub fn elapsed(&self) -> f64 {
        self.start.elapsed().as_secs_f64()
    }
}

fn load_known(prop: &str) -> Vec<KnownEntry> {
    let path = format!("{}/known_findings.json", VERIF);
    let text = match std::fs::read_to_string(&path) {
        Ok(t) => t,
        Err(_) => return vec![],
    };
    let j: J = match serde_json::from_str(&text) {
        Ok(j) => j,
        Err(e) => {
            eprintln!("MACHINERY ERROR: cannot parse {}: {}", path, e);
            std::process::exit(2);
        }
    };
    let mut out = vec![];
    if let Some(arr) = j.get("findings").and_then(|f| f.as_array()) {
        for f in arr {
            if f.get("property").and_then(|p| p.as_str()) != Some(prop) {
                continue;
            }
            if f.get("status").and_then(|p| p.as_str()) != Some("open") {
                continue;
            }
            let strs = |k: &str| -> Vec<String> {
                f.get(k)
                    .and_then(|x| x.as_array())
                    .map(|a| a.iter().filter_map(|s| s.as_str().map(|s| s.to_string())).collect())
                    .unwrap_or_default()
            };
            out.push(KnownEntry {
                id: f.get("id").and_then(|p| p.as_str()).unwrap_or("?").to_string(),
                property: prop.to_string(),
                kind: f.get("kind").and_then(|p| p.as_str()).unwrap_or("").to_string(),
                exact: strs("exact"),
                classes: strs("classes"),
                what: f.get("what").and_then(|p| p.as_str()).unwrap_or("").to_string(),
            });
        }
    }
    out
}

/// Finish a run: write replay files, evidence, print lines, return exit code.
pub fn finish(ctx: &Ctx, level: &str, rule: &str, exhaustive: bool, states: Option<(u64, u64, u64)>) -> i32 {
    let violations = ctx.violations.lock().unwrap().clone();
    let dir = format!("{}/replays/{}", VERIF, ctx.prop);
    let mut printed = 0usize;
    let mut per_kind: BTreeMap<String, usize> = BTreeMap::new();
    if !violations.is_empty() && !ctx.replay_mode {
        let _ = std::fs::create_dir_all(&dir);
    }
    for v in &violations {
        let k = per_kind.entry(format!("{}/{}", v.kind, v.class)).or_insert(0);
        *k += 1;
        if *k > 5 || printed >= 60 {
            continue;
        }
        let body = json!({
            "property": ctx.prop,
            "kind": v.kind,
            "class": v.class,
            "input": v.input,
            "expected": v.expected,
            "observed": v.observed,
            "case": v.case,
            "replay": format!("cd /verif && ./check {} --replay <this file>", ctx.prop),
        });
        let text = serde_json::to_string_pretty(&body).unwrap();
        let path = format!("{}/{:016x}.json", dir, fnv(&format!("{}|{}|{}", v.kind, v.class, v.input)));
        if !ctx.replay_mode {
            let _ = std::fs::write(&path, &text);
        }
        println!("VIOLATION property={} replay={}", ctx.prop, path);
        println!("  kind={} class={} input={}", v.kind, v.class, truncate(&v.input, 300));
        println!("  expected: {}", truncate(&v.expected, 300));
        println!("  observed: {}", truncate(&v.observed, 300));
        printed += 1;
    }
    if violations.len() > printed {
        println!(
            "({} further violations of already-reported kind/class combinations not printed)",
            violations.len() - printed
        );
        for (k, n) in &per_kind {
            println!("  {} x{}", k, n);
        }
    }
    if std::env::var("VERIF_DEBUG").is_ok() {
        // coarse overview for triage: kind + first two spine levels, one example each
        let mut groups: BTreeMap<String, (usize, &Violation)> = BTreeMap::new();
        for v in &violations {
            let coarse: String = {
                let parts: Vec<&str> = v.class.split('@').collect();
                parts.iter().take(2).cloned().collect::<Vec<_>>().join("@")
            };
            let e = groups.entry(format!("{} | {}", v.kind, coarse)).or_insert((0, v));
            e.0 += 1;
        }
        println!("---- DEBUG overview: {} groups", groups.len());
        for (k, (n, v)) in &groups {
            println!("{} x{}\n      in:  {}\n      exp: {}\n      obs: {}", k, n, truncate(&v.input.replace('\n', "\\n"), 160), truncate(&v.expected.replace('\n', "\\n"), 160), truncate(&v.observed.replace('\n', "\\n"), 260));
        }
    }
    let hits = ctx.known_hits.lock().unwrap().clone();
    for e in &ctx.known {
        if let Some((n, example)) = hits.get(&e.id) {
            println!(
                "KNOWN-FINDING: property={} {} [{}; {} cases this run, e.g. {}]",
                ctx.prop,
                e.what,
                e.id,
                n,
                truncate(&example.replace('\n', "\\n"), 120)
            );
        }
    }
    let machinery = ctx.machinery_errors.lock().unwrap().clone();

    // evidence
    let mut cov = serde_json::Map::new();
    let evals = ctx.evaluations.load(Ordering::Relaxed);
    cov.insert("evaluations".into(), json!(evals));
    cov.insert("distinct_nontrivial".into(), json!(ctx.nontrivial_len()));
    cov.insert("rule".into(), json!(rule));
    cov.insert("samples".into(), J::Array(ctx.samples.lock().unwrap().clone()));
    let caps = ctx.caps.lock().unwrap().clone();
    cov.insert("exhaustive".into(), json!(exhaustive && caps.is_empty()));
    if !caps.is_empty() {
        cov.insert("caps_hit".into(), json!(caps));
    }
    if let Some((s, t, v)) = states {
        cov.insert("states".into(), json!(s));
        cov.insert("transitions".into(), json!(t));
        cov.insert("traces_validated_against_impl".into(), json!(v));
    }
    cov.insert(
        "outcomes".into(),
        J::Object(ctx.outcomes_merged().iter().map(|(k, v)| (k.clone(), json!(v))).collect()),
    );
    cov.insert(
        "known_findings_hit".into(),
        J::Object(hits.iter().map(|(k, v)| (k.clone(), json!(v.0))).collect()),
    );
    for (k, v) in ctx.extra.lock().unwrap().iter() {
        cov.insert(k.clone(), v.clone());
    }
    let ev = json!({
        "property_id": ctx.prop,
        "tier": ctx.tier.name(),
        "seed": ctx.seed,
        "level": level,
        "coverage": J::Object(cov),
        "assumptions": ctx.assumptions.lock().unwrap().clone(),
        "wall_s": ctx.elapsed(),
        "violations": violations.len(),
        "machinery_errors": machinery,
    });
    if !ctx.replay_mode {
        let _ = std::fs::create_dir_all(format!("{}/evidence", VERIF));
        let path = format!("{}/evidence/{}.json", VERIF, ctx.prop);
        std::fs::write(&path, serde_json::to_string_pretty(&ev).unwrap()).expect("write evidence");
        // the deeper tier's record is kept separately as well (the file above is rewritten by every run)
        if ctx.tier.name() == "thorough" {
            let _ = std::fs::create_dir_all(format!("{}/evidence-thorough", VERIF));
            let _ = std::fs::write(format!("{}/evidence-thorough/{}.json", VERIF, ctx.prop), serde_json::to_string_pretty(&ev).unwrap());
        }
    }
    println!(
        "{} tier={} evaluations={} distinct_nontrivial={} violations={} known={} wall={:.1}s",
        ctx.prop,
        ctx.tier.name(),
        evals,
        ctx.nontrivial_len(),
        violations.len(),
        hits.values().map(|v| v.0).sum::<usize>(),
        ctx.elapsed()
    );
    // a violation is a verdict even if a vacuity guard tripped as well (often because of it)
    if !violations.is_empty() {
        return 1;
    }
    if !machinery.is_empty() {
        return 2;
    }
    0
}

pub fn truncate(s: &str, n: usize) -> String {
    if s.chars().count() <= n {
        s.to_string()
    } else {
        let t: String = s.chars().take(n).collect();
        format!("{}…", t)
    }
}

// ---------------------------------------------------------------------------------------------
// panic capture

thread_local! {
    static LAST_PANIC: RefCell<Option<String>> = const { RefCell::new(None) };
}

pub fn install_quiet_panic_hook() {
    std::panic::set_hook(Box::new(|info| {
        let loc = info
            .location()
            .map(|l| format!("{}:{}", l.file(), l.line()))
            .unwrap_or_else(|| "?".into());
        let msg = if let Some(s) = info.payload().downcast_ref::<&str>() {
            s.to_string()
        } else if let Some(s) = info.payload().downcast_ref::<String>() {
            s.clone()
        } else {
            "<non-string panic>".to_string()
        };
        LAST_PANIC.with(|p| *p.borrow_mut() = Some(format!("panic at {}: {}", loc, msg)));
    }));
}

/// Run `f`, converting a panic into `Err(description)`.
pub fn catch<R>(f: impl FnOnce() -> R) -> Result<R, String> {
    LAST_PANIC.with(|p| *p.borrow_mut() = None);
    match catch_unwind(AssertUnwindSafe(f)) {
        Ok(r) => Ok(r),
        Err(_) => Err(LAST_PANIC
            .with(|p| p.borrow_mut().take())
            .unwrap_or_else(|| "panic (no message)".into())),
    }
}

// ---------------------------------------------------------------------------------------------
// parallel map

pub fn threads() -> usize {
    std::env::var("VERIF_THREADS")
        .ok()
        .and_then(|s| s.parse().ok())
        .unwrap_or_else(|| std::thread::available_parallelism().map(|n| n.get()).unwrap_or(8))
}

/// Apply `f` to every index in `0..n` on a pool of big-stack threads. `f` gets the index.
pub fn par_for(n: usize, f: impl Fn(usize) + Sync) {
    let next = AtomicUsize::new(0);
    let nthreads = threads().min(n.max(1));
    std::thread::scope(|s| {
        for _ in 0..nthreads {
            std::thread::Builder::new()
                .stack_size(512 << 20)
                .spawn_scoped(s, || {
                    let mut since_clear = 0usize;
                    loop {
                        let i = next.fetch_add(1, Ordering::Relaxed);
                        if i >= n {
                            break;
                        }
                        f(i);
                        since_clear += 1;
                        if since_clear >= 20 {
                            blots_core::functions::clear_function_call_stats();
                            since_clear = 0;
                        }
                    }
                })
                .expect("spawn");
        }
    });
    blots_core::functions::clear_function_call_stats();
}

/// Process-parallel `for`: the index range is split over forked children, each of which runs its
/// share on the calling thread and sends what it recorded in `ctx` back over a pipe. Unlike threads,
/// processes do not contend for blots-core's global call-statistics mutex, and a child that aborts
/// (stack overflow, allocation failure) is reported instead of taking the run down.
pub fn par_for_ctx(ctx: &Ctx, n: usize, f: impl Fn(usize)) {
    let workers = threads().min(n.max(1));
    if workers <= 1 || std::env::var("VERIF_NOFORK").is_ok() {
        for i in 0..n {
            f(i);
            if i % 20 == 0 {
                blots_core::functions::clear_function_call_stats();
            }
        }
        return;
    }
    use std::io::Read;
    use std::os::fd::FromRawFd;
    let mut children: Vec<(libc::pid_t, std::fs::File)> = vec![];
    for k in 0..workers {
        let mut fds = [0i32; 2];
        if unsafe { libc::pipe(fds.as_mut_ptr()) } != 0 {
            ctx.machinery_error("pipe() failed".into());
            return;
        }
        let pid = unsafe { libc::fork() };
        if pid < 0 {
            ctx.machinery_error("fork() failed".into());
            return;
        }
        if pid == 0 {
            // child
            IN_CHILD.store(true, Ordering::Relaxed);
            unsafe { libc::close(fds[0]) };
            for (_, file) in children.drain(..) {
                std::mem::forget(file);
            }
            ctx.clear_accumulators();
            let mut i = k;
            let mut since = 0;
            while i < n {
                f(i);
                i += workers;
                since += 1;
                if since >= 20 {
                    blots_core::functions::clear_function_call_stats();
                    since = 0;
                }
            }
            let payload = ctx.export_delta();
            let mut out = unsafe { std::fs::File::from_raw_fd(fds[1]) };
            let _ = std::io::Write::write_all(&mut out, payload.as_bytes());
            drop(out);
            unsafe { libc::_exit(0) };
        }
        unsafe { libc::close(fds[1]) };
        children.push((pid, unsafe { std::fs::File::from_raw_fd(fds[0]) }));
    }
    for (k, (pid, mut file)) in children.into_iter().enumerate() {
        let mut text = String::new();
        let _ = file.read_to_string(&mut text);
        let mut status = 0i32;
        unsafe { libc::waitpid(pid, &mut status, 0) };
        let ok = libc::WIFEXITED(status) && libc::WEXITSTATUS(status) == 0;
        if !ok || !ctx.merge_delta(&text) {
            ctx.machinery_error(format!(
                "worker process {} of {} ended abnormally (wait status {:#x}); its share of the cases is lost",
                k, workers, status
            ));
        }
    }
}

/// Run `f` in a freshly forked child process and return the string it produces (None if the
/// child died). Used where "no earlier evaluation in this process / thread" has to be literal.
pub fn in_fresh_process(f: impl FnOnce() -> String) -> Option<String> {
    use std::io::Read;
    use std::os::fd::FromRawFd;
    let mut fds = [0i32; 2];
    if unsafe { libc::pipe(fds.as_mut_ptr()) } != 0 {
        return None;
    }
    let pid = unsafe { libc::fork() };
    if pid < 0 {
        return None;
    }
    if pid == 0 {
        IN_CHILD.store(true, Ordering::Relaxed);
        unsafe { libc::close(fds[0]) };
        let out = match catch(f) {
            Ok(s) => s,
            Err(p) => format!("<panic in child: {}>", p),
        };
        let mut file = unsafe { std::fs::File::from_raw_fd(fds[1]) };
        let _ = std::io::Write::write_all(&mut file, out.as_bytes());
        drop(file);
        unsafe { libc::_exit(0) };
    }
    unsafe { libc::close(fds[1]) };
    let mut file = unsafe { std::fs::File::from_raw_fd(fds[0]) };
    let mut text = String::new();
    let _ = file.read_to_string(&mut text);
    let mut status = 0i32;
    unsafe { libc::waitpid(pid, &mut status, 0) };
    if libc::WIFEXITED(status) && libc::WEXITSTATUS(status) == 0 { Some(text) } else { None }
}

/// Parallel map preserving order.
pub fn par_map<T: Sync, R: Send>(items: &[T], f: impl Fn(&T) -> R + Sync) -> Vec<R> {
    let slots: Vec<Mutex<Option<R>>> = items.iter().map(|_| Mutex::new(None)).collect();
    par_for(items.len(), |i| {
        let r = f(&items[i]);
        *slots[i].lock().unwrap() = Some(r);
    });
    slots.into_iter().map(|m| m.into_inner().unwrap().unwrap()).collect()
}

/// Run `f` on one big-stack thread and return its result.
pub fn on_big_stack<R: Send>(f: impl FnOnce() -> R + Send) -> R {
    std::thread::scope(|s| {
        std::thread::Builder::new()
            .stack_size(1 << 30)
            .spawn_scoped(s, f)
            .expect("spawn")
            .join()
            .expect("join")
    })
}

// ---------------------------------------------------------------------------------------------
// sessions over the real evaluator

#[derive(Clone, Debug, PartialEq)]
pub enum Outcome {
    /// value of the statement, canonically rendered
    Ok(String),
    ParseError(String),
    EvalError(String),
    Panic(String),
}

impl Outcome {
    pub fn is_ok(&self) -> bool {
        matches!(self, Outcome::Ok(_))
    }
    pub fn status(&self) -> &'static str {
        match self {
            Outcome::Ok(_) => "ok",
            Outcome::ParseError(_) => "parse-error",
            Outcome::EvalError(_) => "eval-error",
            Outcome::Panic(_) => "panic",
        }
    }
    /// comparison form: values exactly, failures by class only
    pub fn cmp_key(&self) -> String {
        match self {
            Outcome::Ok(v) => format!("ok:{}", v),
            Outcome::ParseError(_) => "parse-error".into(),
            Outcome::EvalError(_) => "eval-error".into(),
            Outcome::Panic(p) => format!("panic:{}", p),
        }
    }
}

pub struct Session {
    pub heap: Rc<RefCell<Heap>>,
    pub env: Rc<Environment>,
    pub outputs: IndexMap<String, SerializableValue>,
    /// render results through SerializableValue (functions by emitted source) instead of the
    /// structural canonical form
    pub sv_mode: bool,
}

impl Session {
    pub fn new() -> Self {
        Self::with_inputs(&[])
    }

    /// A session whose `inputs` record holds the given (name, JSON) pairs, loaded the way the CLI
    /// loads `-i` values.
    pub fn with_inputs(inputs: &[(&str, J)]) -> Self {
        let heap = Rc::new(RefCell::new(Heap::new()));
        let env = Rc::new(Environment::new());
        let mut map: IndexMap<String, Value> = IndexMap::new();
        for (k, j) in inputs {
            let sv = SerializableValue::from_json(j);
            if let Ok(v) = sv.to_value(&mut heap.borrow_mut()) {
                map.insert(k.to_string(), v);
            }
        }
        let rec = heap.borrow_mut().insert_record(map);
        env.insert("inputs".to_string(), rec);
        Session { heap, env, outputs: IndexMap::new(), sv_mode: false }
    }

    /// Evaluate a whole source text the way `blots/src/main.rs::evaluate_source` does: statement
    /// by statement, stopping at the first failure. Returns the outcome of the last statement
    /// evaluated (or of the failing one).
    pub fn run(&mut self, source: &str) -> Outcome {
        let r = catch(|| self.run_inner(source));
        match r {
            Ok(o) => o,
            Err(p) => Outcome::Panic(p),
        }
    }

    fn render(&self, v: &Value) -> String {
        if self.sv_mode {
            match SerializableValue::from_value(v, &self.heap.borrow()) {
                Ok(sv) => canon_sv(&sv),
                Err(e) => format!("<unserializable: {}>", e),
            }
        } else {
            canon_value(v, &self.heap.borrow())
        }
    }

    fn run_inner(&mut self, source: &str) -> Outcome {
        let pairs = match get_pairs(source) {
            Ok(p) => p,
            Err(e) => return Outcome::ParseError(e.to_string()),
        };
        let mut last = Outcome::Ok("<none>".into());
        for pair in pairs {
            if pair.as_rule() != Rule::statement {
                continue;
            }
            let Some(inner) = pair.into_inner().next() else { continue };
            match inner.as_rule() {
                Rule::expression => {
                    match evaluate_pairs(inner.into_inner(), Rc::clone(&self.heap), Rc::clone(&self.env), 0, source) {
                        Ok(v) => last = Outcome::Ok(self.render(&v)),
                        Err(e) => return Outcome::EvalError(e.message.clone()),
                    }
                }
                Rule::output_declaration => {
                    let clone = inner.clone().into_inner();
                    let result = evaluate_pairs(inner.into_inner(), Rc::clone(&self.heap), Rc::clone(&self.env), 0, source);
                    for p in clone {
                        match p.as_rule() {
                            Rule::identifier => {
                                let name = p.as_str();
                                if let Some(v) = self.env.get(name) {
                                    if let Err(e) = validate_portable_value(&v, &self.heap.borrow(), &self.env) {
                                        return Outcome::EvalError(format!("[output error] {}", e));
                                    }
                                    if let Ok(sv) = v.to_serializable_value(&self.heap.borrow()) {
                                        self.outputs.insert(name.to_string(), sv);
                                    }
                                }
                                break;
                            }
                            Rule::assignment => {
                                if let Some(id) = p.into_inner().next()
                                    && let Ok(v) = &result
                                {
                                    if let Err(e) = validate_portable_value(v, &self.heap.borrow(), &self.env) {
                                        return Outcome::EvalError(format!("[output error] {}", e));
                                    }
                                    if let Ok(sv) = v.to_serializable_value(&self.heap.borrow()) {
                                        self.outputs.insert(id.as_str().to_string(), sv);
                                    }
                                }
                                break;
                            }
                            _ => {}
                        }
                    }
                    match result {
                        Ok(v) => last = Outcome::Ok(self.render(&v)),
                        Err(e) => return Outcome::EvalError(e.message.clone()),
                    }
                }
                _ => {}
            }
        }
        last
    }

    /// Value currently bound to `name`, canonically rendered.
    pub fn lookup(&self, name: &str) -> Option<String> {
        self.env.get(name).map(|v| canon_value(&v, &self.heap.borrow()))
    }

    /// Sorted snapshot of every binding.
    pub fn snapshot(&self) -> BTreeMap<String, String> {
        let heap = self.heap.borrow();
        self.env.iter().map(|(k, v)| (k, canon_value(&v, &heap))).collect()
    }

    pub fn outputs_json(&self) -> String {
        let m: IndexMap<String, J> = self.outputs.iter().map(|(k, v)| (k.clone(), v.to_json())).collect();
        serde_json::to_string(&m).unwrap_or_default()
    }
}

/// Evaluate `source` in a fresh session.
pub fn eval_fresh(source: &str) -> Outcome {
    Session::new().run(source)
}

// ---------------------------------------------------------------------------------------------
// canonical rendering of a value (independent of the serializer under test)

pub fn num_repr(n: f64) -> String {
    if n.is_nan() {
        "NaN".to_string()
    } else {
        format!("{:?}#{:016x}", n, n.to_bits())
    }
}

pub fn canon_value(v: &Value, heap: &Heap) -> String {
    let mut out = String::new();
    canon_into(v, heap, &mut out, 0);
    out
}

fn canon_into(v: &Value, heap: &Heap, out: &mut String, depth: usize) {
    if depth > 400 {
        out.push_str("<deep>");
        return;
    }
    match v {
        Value::Number(n) => out.push_str(&num_repr(*n)),
        Value::Bool(b) => out.push_str(if *b { "true" } else { "false" }),
        Value::Null => out.push_str("null"),
        Value::String(p) => match p.reify(heap) {
            HeapValue::String(s) => out.push_str(&format!("{:?}", s)),
            _ => out.push_str("<bad string pointer>"),
        },
        Value::List(p) => match p.reify(heap) {
            HeapValue::List(l) => {
                out.push('[');
                for (i, x) in l.iter().enumerate() {
                    if i > 0 {
                        out.push_str(", ");
                    }
                    canon_into(x, heap, out, depth + 1);
                }
                out.push(']');
            }
            _ => out.push_str("<bad list pointer>"),
        },
        Value::Record(p) => match p.reify(heap) {
            HeapValue::Record(r) => {
                out.push('{');
                for (i, (k, x)) in r.iter().enumerate() {
                    if i > 0 {
                        out.push_str(", ");
                    }
                    out.push_str(&format!("{:?}: ", k));
                    canon_into(x, heap, out, depth + 1);
                }
                out.push('}');
            }
            _ => out.push_str("<bad record pointer>"),
        },
        Value::Lambda(p) => match p.reify(heap) {
            HeapValue::Lambda(l) => {
                out.push_str("fn(");
                for (i, a) in l.args.iter().enumerate() {
                    if i > 0 {
                        out.push_str(", ");
                    }
                    out.push_str(&a.to_string());
                }
                out.push_str(") name=");
                out.push_str(&format!("{:?}", l.name));
                out.push_str(" body=");
                out.push_str(&crate::tgen::expr_canon(&l.body));
                out.push_str(" scope={");
                let mut keys: Vec<(&String, &Value)> = Vec::new();
                // bypass the hooked iterator: sort ourselves
                let rc = l.scope.as_rc();
                for (k, v) in rc.iter() {
                    keys.push((k, v));
                }
                keys.sort_by(|a, b| a.0.cmp(b.0));
                for (i, (k, x)) in keys.iter().enumerate() {
                    if i > 0 {
                        out.push_str(", ");
                    }
                    out.push_str(k);
                    out.push_str(": ");
                    canon_into(x, heap, out, depth + 1);
                }
                out.push('}');
            }
            _ => out.push_str("<bad lambda pointer>"),
        },
        Value::BuiltIn(b) => out.push_str(&format!("builtin:{}", b.name())),
        Value::Spread(_) => out.push_str("<spread>"),
    }
}

/// Canonical rendering of a SerializableValue (numbers by bits).
pub fn canon_sv(v: &SerializableValue) -> String {
    match v {
        SerializableValue::Number(n) => num_repr(*n),
        SerializableValue::Bool(b) => b.to_string(),
        SerializableValue::Null => "null".into(),
        SerializableValue::String(s) => format!("{:?}", s),
        SerializableValue::List(l) => format!("[{}]", l.iter().map(canon_sv).collect::<Vec<_>>().join(", ")),
        SerializableValue::Record(r) => format!(
            "{{{}}}",
            r.iter().map(|(k, v)| format!("{:?}: {}", k, canon_sv(v))).collect::<Vec<_>>().join(", ")
        ),
        // functions are compared by signature only: two emissions of equivalent functions may
        // differ in redundant parentheses; their behaviour is compared by calling them
        SerializableValue::Lambda(l) => {
            format!("fn({})", l.args.iter().map(|a| a.to_string()).collect::<Vec<_>>().join(", "))
        }
        SerializableValue::BuiltIn(n) => format!("builtin:{}", n),
    }
}

pub fn jstr(s: &str) -> J {
    J::String(s.to_string())
}
